(* C19: the example CAN tunnel is transparent. *)
From Coq Require Import List NArith ZArith Bool Lia Arith String.
From O1722 Require Import Sym Bits Host FieldModel FieldProofs Spec SpecProofs RecordTheory AccModel FormatChecks NormalProofs ByteLemmas Paths CanModel
  C13Proofs C01Proofs C17Proofs C05Proofs FieldOpsProofs C06Proofs ExCan C18Proofs.
From O1722.Generated Require Import Tables.
Import ListNotations.
Local Open Scope string_scope.
Local Open Scope list_scope.
Local Open Scope N_scope.

Notation normal := SpecProofs.normal.

Definition set_all (s:sformat) (l:list (string * N)) (b:buf) : buf := fold_left (fun acc nv => ref_set s (fst nv) (snd nv) acc) l b.

(* ---------- generic facts ---------- *)
Lemma nth_skipn' {A} (d:A) : forall h l k, nth k (skipn h l) d = nth (h + k) l d.
Proof. induction h as [|h IH]; intros l k; [reflexivity|]. destruct l as [|x r]; [destruct k; reflexivity|]. cbn [skipn Nat.add nth]. apply IH. Qed.

Lemma skipn_ref_set s name v b : In s all_specs -> name_ok s name = true -> normal b ->
  skipn (N.to_nat (sp_hdr_len s)) (ref_set s name v b) = skipn (N.to_nat (sp_hdr_len s)) b.
Proof.
  intros Hs Hok Hn. apply (nth_ext _ _ 0 0).
  - rewrite !skipn_length, FieldOpsProofs.length_ref_set. reflexivity.
  - intros k _. rewrite !nth_skipn'. pose proof (FieldOpsProofs.ref_set_far s Hs name v b (N.of_nat (N.to_nat (sp_hdr_len s) + k)) Hok Hn) as H.
    unfold nthN in H. rewrite Nnat.Nat2N.id in H. apply H. lia.
Qed.
Lemma skipn_set_all s l : In s all_specs -> forallb (fun nv => name_ok s (fst nv)) l = true -> forall b, normal b ->
  skipn (N.to_nat (sp_hdr_len s)) (set_all s l b) = skipn (N.to_nat (sp_hdr_len s)) b.
Proof.
  intros Hs. induction l as [|[n v] r IH]; intros Hok b Hn; cbn [set_all fold_left]; [reflexivity|].
  cbn [forallb fst] in Hok. apply andb_true_iff in Hok. destruct Hok as [H1 H2]. cbn [fst snd].
  unfold set_all in IH. rewrite (IH H2) by (apply FieldOpsProofs.normal_ref_set; exact Hn). apply skipn_ref_set; assumption.
Qed.

(* a header field only depends on the header bytes *)
Lemma ref_get_app s name H R : In s all_specs -> name_ok s name = true -> sp_hdr_len s <= blen H ->
  ref_get s name (H ++ R) = ref_get s name H.
Proof.
  intros Hs Hok Hb. destruct (name_ok_field s name Hok) as [f [? [? [? [? [? [? [Ef [Hf _]]]]]]]]].
  unfold ref_get. rewrite Ef. apply spec_extract_ext. intros i [Hi1 Hi2].
  pose proof (field_inside s f Hs Hf) as Hin.
  unfold bit_at, byte_at, nthN. rewrite app_nth1; [reflexivity|]. unfold blen in Hb.
  assert (i / 8 < sp_hdr_len s) by (apply N.div_lt_upper_bound; lia). lia.
Qed.

(* the last write to a field wins *)
Fixpoint last_write (name:string) (l:list (string * N)) : option N :=
  match l with
  | [] => None
  | (n, v) :: r => match last_write name r with Some x => Some x | None => if String.eqb n name then Some v else None end
  end.
Definition fwidth_of (s:sformat) (name:string) : N := match find_sfield (sp_fields s) name with Some f => sf_width f | None => 0 end.
Lemma ref_get_set_all s name l : In s all_specs -> name_ok s name = true -> forallb (fun nv => name_ok s (fst nv)) l = true ->
  forall b, sp_hdr_len s <= blen b ->
  ref_get s name (set_all s l b) = match last_write name l with Some v => v mod 2 ^ fwidth_of s name | None => ref_get s name b end.
Proof.
  intros Hs Hok. induction l as [|[n v] r IH]; intros Hl b Hb; cbn [set_all fold_left last_write]; [reflexivity|].
  cbn [forallb fst] in Hl. apply andb_true_iff in Hl. destruct Hl as [H1 H2]. cbn [fst snd].
  unfold set_all in IH. rewrite (IH H2) by (rewrite FieldOpsProofs.blen_ref_set; exact Hb).
  destruct (last_write name r); [reflexivity|].
  destruct (String.eqb n name) eqn:En.
  - apply String.eqb_eq in En. subst n. apply (FieldOpsProofs.ref_get_same s Hs name v b Hok Hb).
  - apply String.eqb_neq in En. apply (FieldOpsProofs.ref_get_other s Hs name n v b Hok H1). congruence.
Qed.
Lemma set_all_app s l1 l2 b : set_all s (l1 ++ l2) b = set_all s l2 (set_all s l1 b).
Proof. unfold set_all. apply fold_left_app. Qed.

(* ---------- flag bits ---------- *)
Lemma land_pow2 x k : N.land x (2 ^ k) = if N.testbit x k then 2 ^ k else 0.
Proof.
  apply N.bits_inj. intros n. rewrite N.land_spec, N.pow2_bits_eqb.
  destruct (N.eqb_spec k n) as [->|Hne].
  - rewrite andb_true_r. destruct (N.testbit x n); [rewrite N.pow2_bits_true; reflexivity|rewrite N.bits_0; reflexivity].
  - rewrite andb_false_r. destruct (N.testbit x k); [rewrite N.pow2_bits_false by exact Hne; reflexivity|rewrite N.bits_0; reflexivity].
Qed.
Lemma flag_bit x k : flag x (2 ^ k) = if N.testbit x k then 1 else 0.
Proof.
  unfold flag. rewrite land_pow2. destruct (N.testbit x k); [|reflexivity].
  replace (2 ^ k =? 0) with false; [reflexivity|]. symmetry. apply N.eqb_neq. apply N.pow_nonzero. discriminate.
Qed.

Section Tunnel.
  Variable E : endian.
  Notation LD := (ldqE E). Notation ST := (stqE E).

  Lemma zero_exact n b : n <= blen b -> zero n b = Ok (upd b 0 (repeat 0 (N.to_nat n))).
  Proof. intros H. unfold zero. replace (n <=? blen b) with true by (symmetry; apply N.leb_le; exact H). reflexivity. Qed.

  Lemma finit_exact s h b : In s all_specs -> canonical_header s = Some h -> sp_init s <> "" -> normal b -> sp_hdr_len s <= blen b ->
    finit LD ST s b = Ok (h ++ skipn (N.to_nat (sp_hdr_len s)) b).
  Proof.
    intros Hs Hc Hi Hn Hb. pose proof (cstep_refines E s Hs h Hc CInit b Hi Hn Hb) as H.
    cbn [cstep cabs hrun fold_left hstep] in H. unfold finit.
    destruct (fmt_unit all_units s) as [[u t]|]; [|discriminate].
    destruct (find_init (u_inits u) (sp_init s)) as [i|]; [|discriminate].
    destruct (run_init LD ST cfg u i (Some b)) as [[b'|]| |]; cbn [unwrap] in H; try discriminate. inversion H. reflexivity.
  Qed.

  Lemma sets_exact s l : In s all_specs -> forallb (fun nv => name_ok s (fst nv)) l = true -> forall b, normal b -> sp_hdr_len s <= blen b ->
    sets LD ST s l b = Ok (set_all s l b).
  Proof.
    intros Hs. induction l as [|[n v] r IH]; intros Hok b Hn Hb; cbn [sets set_all fold_left]; [reflexivity|].
    cbn [forallb fst] in Hok. apply andb_true_iff in Hok. destruct Hok as [H1 H2].
    rewrite (fsetf_exact E s Hs n v b H1 Hn Hb). cbn [Paths.bind]. cbn [fst snd].
    apply (IH H2); [apply FieldOpsProofs.normal_ref_set; exact Hn|rewrite FieldOpsProofs.blen_ref_set; exact Hb].
  Qed.
  Lemma normal_set_all s l : forall b, normal b -> normal (set_all s l b).
  Proof. induction l as [|[n v] r IH]; intros b Hn; cbn [set_all fold_left]; [exact Hn|]. apply IH. apply FieldOpsProofs.normal_ref_set. exact Hn. Qed.
  Lemma blen_set_all s l : forall b, blen (set_all s l b) = blen b.
  Proof. induction l as [|[n v] r IH]; intros b; cbn [set_all fold_left]; [reflexivity|]. unfold set_all in IH. rewrite IH. apply FieldOpsProofs.blen_ref_set. Qed.

  (* ---------- one CAN frame -> one ACF message ---------- *)
  Definition can_h : buf := match canonical_header spec_Can with Some h => h | None => [] end.
  Lemma can_h_ok : canonical_header spec_Can = Some can_h.
  Proof. reflexivity. Qed.
  Lemma spec_Can_in : In spec_Can all_specs.
  Proof. exact in_Can. Qed.

  Definition hdr_sets (fd:bool) (fr:cframe) (ts:N) : list (string * N) :=
    [("AVTP_CAN_FIELD_MESSAGE_TIMESTAMP", ts); ("AVTP_CAN_FIELD_MTV", 1);
     ("AVTP_CAN_FIELD_RTR", flag (cf_canid fr) CAN_RTR_FLAG); ("AVTP_CAN_FIELD_EFF", flag (cf_canid fr) CAN_EFF_FLAG)] ++
    (if fd then [("AVTP_CAN_FIELD_BRS", flag (cf_fflags fr) CANFD_BRS); ("AVTP_CAN_FIELD_FDF", flag (cf_fflags fr) CANFD_FDF);
                 ("AVTP_CAN_FIELD_ESI", flag (cf_fflags fr) CANFD_ESI)] else []).
  Definition payload_of (fr:cframe) : list N := firstn (N.to_nat (cf_flen fr)) (cf_fdata fr).
  Definition padof (len:N) : N := (4 - len mod 4) mod 4.
  Definition msg_len (fr:cframe) : N := 16 + cf_flen fr + padof (cf_flen fr).
  (* the buffer after prepare_acf_packet, in terms of the reference write *)
  Definition idof (fr:cframe) : N := N.land (cf_canid fr) CAN_EFF_MASK.
  Definition all_sets (fd:bool) (fr:cframe) (ts:N) : list (string * N) :=
    hdr_sets fd fr ts ++
    [("AVTP_CAN_FIELD_EFF", if 0x7ff <? idof fr then 1 else 0); ("AVTP_CAN_FIELD_CAN_IDENTIFIER", idof fr);
     ("AVTP_CAN_FIELD_FDF", if fd then 1 else 0); ("AVTP_CAN_FIELD_ACF_MSG_LENGTH", msg_len fr / 4);
     ("AVTP_CAN_FIELD_PAD", padof (cf_flen fr)); ("AVTP_CAN_FIELD_EFF", flag (cf_canid fr) CAN_EFF_FLAG)].
  (* the header after prepare_acf_packet, and the bytes of the message *)
  Definition msg_hdr (fd:bool) (fr:cframe) (ts:N) (b:buf) : buf := set_all spec_Can (all_sets fd fr ts) (can_h ++ skipn 16 b).
  Definition msg_bytes (fd:bool) (fr:cframe) (ts:N) (b:buf) : list N :=
    firstn 16 (msg_hdr fd fr ts b) ++ payload_of fr ++ repeat 0 (N.to_nat (padof (cf_flen fr))).

  Definition frame_ok (fd:bool) (fr:cframe) : Prop :=
    cf_flen fr <= (if fd then 64 else 8) /\ List.length (cf_fdata fr) = (if fd then 64 else 8)%nat /\ normal (cf_fdata fr).

  Lemma set_payload_firstn c b payload plen : plen < 2 ^ 16 -> plen <= N.of_nat (List.length payload) ->
    can_set_payload c b payload plen = can_set_payload c b (firstn (N.to_nat plen) payload) plen.
  Proof.
    intros H1 H2. unfold can_set_payload. rewrite (N.mod_small plen) by exact H1.
    rewrite firstn_length. rewrite firstn_firstn. replace (Init.Nat.min (N.to_nat plen) (N.to_nat plen)) with (N.to_nat plen) by lia.
    replace (plen <=? N.of_nat (Init.Nat.min (N.to_nat plen) (List.length payload))) with (plen <=? N.of_nat (List.length payload)); [reflexivity|].
    apply eq_true_iff_eq. rewrite !N.leb_le. lia.
  Qed.

  Lemma land_mask_lt x : N.land x CAN_EFF_MASK < 2 ^ 32.
  Proof.
    unfold CAN_EFF_MASK. change 0x1FFFFFFF with (N.ones 29). rewrite N.land_ones.
    eapply N.lt_trans; [apply N.mod_lt; discriminate|reflexivity].
  Qed.


  Lemma all_sets_ok fd fr ts : forallb (fun nv => name_ok spec_Can (fst nv)) (all_sets fd fr ts) = true.
  Proof. destruct fd; reflexivity. Qed.

  Lemma prepare_exact fd fr ts b : frame_ok fd fr -> normal b -> msg_len fr <= blen b ->
    prepare_acf LD ST fd fr ts b = Ok (msg_bytes fd fr ts b ++ skipn (N.to_nat (msg_len fr)) b, msg_len fr).
  Proof.
    intros [Hlen [Hdl Hdn]] Hn Hb. unfold prepare_acf.
    assert (Hl64 : cf_flen fr <= 64) by (destruct fd; lia).
    assert (Hp : padof (cf_flen fr) < 4) by (unfold padof; apply N.mod_lt; discriminate).
    unfold msg_len in Hb.
    rewrite zero_exact by lia. cbn [Paths.bind]. change (N.to_nat 16) with 16%nat.
    set (b0 := upd b 0 (repeat 0 16%nat)).
    assert (Hn0 : normal b0) by (apply normal_upd; [exact Hn|apply normal_repeat; lia]).
    assert (Hb0 : blen b0 = blen b) by apply blen_upd.
    assert (Hs0 : skipn 16 b0 = skipn 16 b).
    { unfold b0. rewrite upd_as_app by (rewrite repeat_length; lia). cbn [N.to_nat firstn app]. rewrite repeat_length.
      rewrite skipn_app, repeat_length. rewrite skipn_all2 by (rewrite repeat_length; lia). reflexivity. }
    rewrite (finit_exact spec_Can can_h b0 spec_Can_in can_h_ok) by (first [discriminate | exact Hn0 | rewrite Hb0; cbn [sp_hdr_len spec_Can]; lia]).
    cbn [Paths.bind]. change (N.to_nat (sp_hdr_len spec_Can)) with 16%nat. rewrite Hs0.
    set (b1 := can_h ++ skipn 16 b).
    assert (Hn1 : normal b1).
    { apply normal_app; [vm_compute; repeat constructor|]. unfold normal in *. apply Forall_forall. intros x Hx.
      rewrite Forall_forall in Hn. apply Hn. eapply In_skipn; eauto. }
    assert (Hb1 : blen b1 = blen b).
    { unfold b1, blen. rewrite app_length, skipn_length. change (List.length can_h) with 16%nat. unfold blen in Hb. lia. }
    fold (hdr_sets fd fr ts).
    rewrite (sets_exact spec_Can (hdr_sets fd fr ts) spec_Can_in) by (first [(lazymatch goal with |- forallb _ _ = true => destruct fd; reflexivity end) | exact Hn1 | rewrite Hb1; cbn [sp_hdr_len spec_Can]; lia]).
    cbn [Paths.bind]. set (b3 := set_all spec_Can (hdr_sets fd fr ts) b1).
    assert (Hn3 : normal b3) by (apply normal_set_all; exact Hn1).
    assert (Hb3 : blen b3 = blen b) by (unfold b3; rewrite blen_set_all; exact Hb1).
    assert (Hpl : N.of_nat (List.length (payload_of fr)) = cf_flen fr).
    { unfold payload_of. rewrite firstn_length. rewrite Hdl. destruct fd; lia. }
    assert (Hnp : normal (payload_of fr)).
    { unfold payload_of, normal in *. apply Forall_forall. intros x Hx. rewrite Forall_forall in Hdn. apply Hdn. eapply In_firstn; eauto. }
    (* the one-call builder *)
    fold (idof fr).
    assert (Hcc : can_create LD ST cf_full b3 (idof fr) (cf_fdata fr) (cf_flen fr) (if fd then 1 else 0) =
                  Ok (can_ref cf_full b3 (idof fr) (payload_of fr) (if fd then 1 else 0))).
    { unfold can_create. rewrite set_payload_firstn by (first [lia | rewrite Hdl; destruct fd; lia]).
      fold (payload_of fr).
      pose proof (create_exact E cf_full cf_full_in cf_full_ok b3 (idof fr) (payload_of fr) (if fd then 1 else 0)) as Hce.
      cbv zeta in Hce. rewrite Hpl in Hce. unfold can_create in Hce. apply Hce;
        [exact Hn3|apply land_mask_lt|destruct fd; reflexivity|lia|rewrite Hb3; cbn [sp_hdr_len cf_spec cf_full spec_Can]; fold (padof (cf_flen fr)); lia]. }
    rewrite Hcc. cbn [Paths.bind].
    pose proof (can_ref_shape cf_full cf_full_in cf_full_ok b3 (idof fr) (payload_of fr) (if fd then 1 else 0)) as Hsh.
    cbv zeta in Hsh. rewrite Hpl in Hsh. fold (padof (cf_flen fr)) in Hsh. cbn [sp_hdr_len cf_spec cf_full spec_Can] in Hsh.
    rewrite (map_mod_normal _ Hnp) in Hsh. rewrite Hsh by (first [exact Hn3 | rewrite Hb3; lia]). cbn [fst snd]. clear Hsh.
    set (H0 := can_hdr cf_full b3 (idof fr) (if fd then 1 else 0) (cf_flen fr) (padof (cf_flen fr))).
    set (z := repeat 0 (N.to_nat (padof (cf_flen fr)))).
    assert (Hz : N.of_nat (List.length z) = padof (cf_flen fr)) by (unfold z; rewrite repeat_length; lia).
    assert (Hnz : normal z) by (apply normal_repeat; lia).
    assert (HnH0 : normal H0) by (unfold H0, can_hdr; repeat apply FieldOpsProofs.normal_ref_set; exact Hn3).
    assert (HbH0 : blen H0 = blen b) by (unfold H0, can_hdr; rewrite !FieldOpsProofs.blen_ref_set; exact Hb3).
    (* the final EFF write, moved below the two copies *)
    set (e := flag (cf_canid fr) CAN_EFF_FLAG).
    assert (Hfin : fsetf LD ST spec_Can "AVTP_CAN_FIELD_EFF" e (upd (upd H0 16 (payload_of fr)) (16 + cf_flen fr) z) =
                   Ok (upd (ref_set spec_Can "AVTP_CAN_FIELD_EFF" e H0) 16 (payload_of fr ++ z))).
    { rewrite (fsetf_exact E spec_Can spec_Can_in) by
        (first [nok | eqrefl | repeat apply normal_upd; assumption | rewrite !blen_upd, HbH0; cbn [sp_hdr_len spec_Can]; lia]).
      f_equal.
      pose proof (C06Proofs.ref_set_upd cf_full cf_full_in cf_full_ok "AVTP_CAN_FIELD_EFF" e (upd H0 16 (payload_of fr)) (16 + cf_flen fr) z) as R1.
      cbn [cf_spec cf_full sp_hdr_len spec_Can cf_eff cf_id cf_fdf cf_len cf_pad] in R1.
      rewrite R1 by (first [left; reflexivity | apply normal_upd; assumption | assumption | lia | (rewrite blen_upd, HbH0; lia)]). clear R1.
      pose proof (C06Proofs.ref_set_upd cf_full cf_full_in cf_full_ok "AVTP_CAN_FIELD_EFF" e H0 16 (payload_of fr)) as R2.
      cbn [cf_spec cf_full sp_hdr_len spec_Can cf_eff cf_id cf_fdf cf_len cf_pad] in R2.
      rewrite R2 by (first [left; reflexivity | assumption | lia | (rewrite HbH0; lia)]). clear R2.
      rewrite <- Hpl at 1. apply upd_app. rewrite FieldOpsProofs.blen_ref_set, HbH0. lia. }
    rewrite Hfin. cbn [Paths.bind]. clear Hfin.
    (* the header as one list of writes on the initialised header *)
    assert (HH : ref_set spec_Can "AVTP_CAN_FIELD_EFF" e H0 = msg_hdr fd fr ts b).
    { unfold msg_hdr, all_sets. rewrite set_all_app. fold b1. fold b3. unfold H0, can_hdr. cbn [cf_spec cf_full cf_eff cf_id cf_fdf cf_len cf_pad sp_hdr_len spec_Can].
      unfold msg_len. reflexivity. }
    rewrite HH. set (HD := msg_hdr fd fr ts b).
    assert (HnHD : normal HD) by (unfold HD; rewrite <- HH; apply FieldOpsProofs.normal_ref_set; exact HnH0).
    assert (HbHD : blen HD = blen b) by (unfold HD; rewrite <- HH; rewrite FieldOpsProofs.blen_ref_set; exact HbH0).
    assert (Hpz : N.of_nat (List.length (payload_of fr ++ z)) = cf_flen fr + padof (cf_flen fr)) by (rewrite app_length; lia).
    (* the returned length *)
    rewrite (fgetd_exact E spec_Can spec_Can_in) by (first [nok | eqrefl | rewrite blen_upd, HbHD; cbn [sp_hdr_len spec_Can]; lia]).
    cbn [Paths.bind].
    rewrite (FieldOpsProofs.ref_get_upd_far spec_Can spec_Can_in) by (first [nok | eqrefl | cbn [sp_hdr_len spec_Can]; lia | rewrite Hpz, HbHD; lia]).
    unfold HD at 2. unfold msg_hdr.
    rewrite (ref_get_set_all spec_Can "AVTP_CAN_FIELD_ACF_MSG_LENGTH" (all_sets fd fr ts) spec_Can_in eq_refl (all_sets_ok fd fr ts))
      by (fold b1; rewrite Hb1; cbn [sp_hdr_len spec_Can]; lia).
    replace (last_write "AVTP_CAN_FIELD_ACF_MSG_LENGTH" (all_sets fd fr ts)) with (Some (msg_len fr / 4)) by (destruct fd; reflexivity).
    change (fwidth_of spec_Can "AVTP_CAN_FIELD_ACF_MSG_LENGTH") with 9.
    assert (Hq : (msg_len fr / 4) mod 2 ^ 9 * 4 = msg_len fr).
    { unfold msg_len, padof in *. lia. }
    rewrite Hq. f_equal. f_equal.
    (* the bytes *)
    rewrite upd_as_app by (rewrite Hpz, HbHD; lia). unfold msg_bytes. fold HD. fold z. change (N.to_nat 16) with 16%nat.
    rewrite <- !app_assoc. do 3 f_equal.
    replace (16 + List.length (payload_of fr ++ z))%nat with (16 + (N.to_nat (msg_len fr) - 16))%nat by (unfold msg_len; lia).
    rewrite <- skipn_skipn_plus. unfold HD, msg_hdr.
    pose proof (skipn_set_all spec_Can (all_sets fd fr ts) spec_Can_in (all_sets_ok fd fr ts) _ Hn1) as R3.
    change (N.to_nat (sp_hdr_len spec_Can)) with 16%nat in R3. fold b1. rewrite R3. clear R3.
    assert (Hsk : skipn 16 b1 = skipn 16 b).
    { unfold b1. replace 16%nat with (List.length can_h) at 1 by reflexivity. rewrite skipn_app, skipn_all, Nat.sub_diag. reflexivity. }
    rewrite Hsk. rewrite skipn_skipn_plus. f_equal. unfold msg_len. lia.
  Qed.

  (* ---------- reading a message back ---------- *)
  Lemma len_msg_hdr fd fr ts b : 16 <= blen b -> blen (msg_hdr fd fr ts b) = blen b.
  Proof.
    intros Hb. unfold msg_hdr. rewrite blen_set_all. unfold blen in *. rewrite app_length, skipn_length.
    change (List.length can_h) with 16%nat. lia.
  Qed.
  Lemma len_msg_bytes fd fr ts b : frame_ok fd fr -> 16 <= blen b -> N.of_nat (List.length (msg_bytes fd fr ts b)) = msg_len fr.
  Proof.
    intros [Hlen [Hdl _]] Hb. unfold msg_bytes. rewrite !app_length, firstn_length, repeat_length.
    pose proof (len_msg_hdr fd fr ts b Hb) as H. unfold blen in H, Hb.
    unfold payload_of. rewrite firstn_length, Hdl. unfold msg_len. destruct fd; lia.
  Qed.

  (* a field of the message, read at the start of any buffer that begins with the message *)
  Lemma msg_field fd fr ts b rest name : 16 <= blen b -> name_ok spec_Can name = true ->
    ref_get spec_Can name (msg_bytes fd fr ts b ++ rest) =
      match last_write name (all_sets fd fr ts) with Some v => v mod 2 ^ fwidth_of spec_Can name | None => ref_get spec_Can name can_h end.
  Proof.
    intros Hb Hok. pose proof (len_msg_hdr fd fr ts b Hb) as HL.
    assert (H16 : blen (firstn 16 (msg_hdr fd fr ts b)) = 16) by (unfold blen in *; rewrite firstn_length; lia).
    unfold msg_bytes. rewrite <- !app_assoc.
    rewrite (ref_get_app spec_Can name _ _ spec_Can_in Hok) by (rewrite H16; cbn; lia).
    rewrite <- (ref_get_app spec_Can name (firstn 16 (msg_hdr fd fr ts b)) (skipn 16 (msg_hdr fd fr ts b)) spec_Can_in Hok) by (rewrite H16; cbn; lia).
    rewrite firstn_skipn. unfold msg_hdr.
    rewrite (ref_get_set_all spec_Can name (all_sets fd fr ts) spec_Can_in Hok (all_sets_ok fd fr ts))
      by (unfold blen in *; rewrite app_length, skipn_length; change (List.length can_h) with 16%nat; cbn [sp_hdr_len spec_Can]; lia).
    destruct (last_write name (all_sets fd fr ts)); [reflexivity|].
    apply (ref_get_app spec_Can name can_h _ spec_Can_in Hok). vm_compute. discriminate.
  Qed.
  Lemma msg_type fd fr ts b rest : 16 <= blen b ->
    ref_get spec_AcfCommon "AVTP_ACF_FIELD_ACF_MSG_TYPE" (msg_bytes fd fr ts b ++ rest) = 1.
  Proof.
    intros Hb. change (ref_get spec_AcfCommon "AVTP_ACF_FIELD_ACF_MSG_TYPE" (msg_bytes fd fr ts b ++ rest))
      with (ref_get spec_Can "AVTP_CAN_FIELD_ACF_MSG_TYPE" (msg_bytes fd fr ts b ++ rest)).
    rewrite (msg_field fd fr ts b rest "AVTP_CAN_FIELD_ACF_MSG_TYPE" Hb eq_refl). destruct fd; reflexivity.
  Qed.
  Lemma msg_payload fd fr ts b rest : frame_ok fd fr -> 16 <= blen b ->
    slice (msg_bytes fd fr ts b ++ rest) 16 (N.to_nat (cf_flen fr)) = payload_of fr.
  Proof.
    intros [Hlen [Hdl Hdn]] Hb. pose proof (len_msg_hdr fd fr ts b Hb) as HL.
    assert (H16 : List.length (firstn 16 (msg_hdr fd fr ts b)) = 16%nat) by (unfold blen in *; rewrite firstn_length; lia).
    assert (Hpl : List.length (payload_of fr) = N.to_nat (cf_flen fr)).
    { unfold payload_of. rewrite firstn_length, Hdl. destruct fd; lia. }
    assert (Hnp : normal (payload_of fr)).
    { unfold payload_of, normal in *. apply Forall_forall. intros x Hx. rewrite Forall_forall in Hdn. apply Hdn. eapply In_firstn; eauto. }
    unfold msg_bytes. rewrite <- !app_assoc. rewrite <- Hpl. replace 16 with (N.of_nat (List.length (firstn 16 (msg_hdr fd fr ts b)))) by (rewrite H16; reflexivity).
    rewrite slice_app_mid. apply map_mod_normal. exact Hnp.
  Qed.

  Lemma flag_01 x m : flag x m = 0 \/ flag x m = 1.
  Proof. unfold flag. destruct (N.land x m =? 0); [left|right]; reflexivity. Qed.
  Lemma idof_lt fr : idof fr < 2 ^ 29.
  Proof. unfold idof, CAN_EFF_MASK. change 0x1FFFFFFF with (N.ones 29). rewrite N.land_ones. apply N.mod_lt. discriminate. Qed.

  Record msg_vals (fd:bool) (fr:cframe) (X:buf) : Prop := mkvals {
    v_type : ref_get spec_AcfCommon "AVTP_ACF_FIELD_ACF_MSG_TYPE" X = 1;
    v_id : ref_get spec_Can "AVTP_CAN_FIELD_CAN_IDENTIFIER" X = idof fr;
    v_len : ref_get spec_Can "AVTP_CAN_FIELD_ACF_MSG_LENGTH" X = msg_len fr / 4;
    v_pad : ref_get spec_Can "AVTP_CAN_FIELD_PAD" X = padof (cf_flen fr);
    v_eff : ref_get spec_Can "AVTP_CAN_FIELD_EFF" X = flag (cf_canid fr) CAN_EFF_FLAG;
    v_rtr : ref_get spec_Can "AVTP_CAN_FIELD_RTR" X = flag (cf_canid fr) CAN_RTR_FLAG;
    v_brs : ref_get spec_Can "AVTP_CAN_FIELD_BRS" X = if fd then flag (cf_fflags fr) CANFD_BRS else 0;
    v_fdf : ref_get spec_Can "AVTP_CAN_FIELD_FDF" X = if fd then 1 else 0;
    v_esi : ref_get spec_Can "AVTP_CAN_FIELD_ESI" X = if fd then flag (cf_fflags fr) CANFD_ESI else 0;
    v_payload : slice X 16 (N.to_nat (cf_flen fr)) = payload_of fr
  }.

  Lemma msg_values fd fr ts b rest : frame_ok fd fr -> 16 <= blen b -> msg_vals fd fr (msg_bytes fd fr ts b ++ rest).
  Proof.
    intros Hok Hb. destruct Hok as [Hlen Hrest].
    assert (Hl64 : cf_flen fr <= 64) by (destruct fd; lia).
    assert (Hp : padof (cf_flen fr) < 4) by (unfold padof; apply N.mod_lt; discriminate).
    constructor.
    - apply msg_type. exact Hb.
    - rewrite (msg_field fd fr ts b rest "AVTP_CAN_FIELD_CAN_IDENTIFIER" Hb eq_refl).
      replace (last_write "AVTP_CAN_FIELD_CAN_IDENTIFIER" (all_sets fd fr ts)) with (Some (idof fr)) by (destruct fd; reflexivity).
      change (fwidth_of spec_Can "AVTP_CAN_FIELD_CAN_IDENTIFIER") with 29. apply N.mod_small. apply idof_lt.
    - rewrite (msg_field fd fr ts b rest "AVTP_CAN_FIELD_ACF_MSG_LENGTH" Hb eq_refl).
      replace (last_write "AVTP_CAN_FIELD_ACF_MSG_LENGTH" (all_sets fd fr ts)) with (Some (msg_len fr / 4)) by (destruct fd; reflexivity).
      change (fwidth_of spec_Can "AVTP_CAN_FIELD_ACF_MSG_LENGTH") with 9. apply N.mod_small. unfold msg_len. lia.
    - rewrite (msg_field fd fr ts b rest "AVTP_CAN_FIELD_PAD" Hb eq_refl).
      replace (last_write "AVTP_CAN_FIELD_PAD" (all_sets fd fr ts)) with (Some (padof (cf_flen fr))) by (destruct fd; reflexivity).
      change (fwidth_of spec_Can "AVTP_CAN_FIELD_PAD") with 2. apply N.mod_small. exact Hp.
    - rewrite (msg_field fd fr ts b rest "AVTP_CAN_FIELD_EFF" Hb eq_refl).
      replace (last_write "AVTP_CAN_FIELD_EFF" (all_sets fd fr ts)) with (Some (flag (cf_canid fr) CAN_EFF_FLAG)) by (destruct fd; reflexivity).
      change (fwidth_of spec_Can "AVTP_CAN_FIELD_EFF") with 1. destruct (flag_01 (cf_canid fr) CAN_EFF_FLAG) as [H|H]; rewrite H; reflexivity.
    - rewrite (msg_field fd fr ts b rest "AVTP_CAN_FIELD_RTR" Hb eq_refl).
      replace (last_write "AVTP_CAN_FIELD_RTR" (all_sets fd fr ts)) with (Some (flag (cf_canid fr) CAN_RTR_FLAG)) by (destruct fd; reflexivity).
      change (fwidth_of spec_Can "AVTP_CAN_FIELD_RTR") with 1. destruct (flag_01 (cf_canid fr) CAN_RTR_FLAG) as [H|H]; rewrite H; reflexivity.
    - rewrite (msg_field fd fr ts b rest "AVTP_CAN_FIELD_BRS" Hb eq_refl). destruct fd.
      + replace (last_write "AVTP_CAN_FIELD_BRS" (all_sets true fr ts)) with (Some (flag (cf_fflags fr) CANFD_BRS)) by reflexivity.
        change (fwidth_of spec_Can "AVTP_CAN_FIELD_BRS") with 1. destruct (flag_01 (cf_fflags fr) CANFD_BRS) as [H|H]; rewrite H; reflexivity.
      + reflexivity.
    - rewrite (msg_field fd fr ts b rest "AVTP_CAN_FIELD_FDF" Hb eq_refl). destruct fd; reflexivity.
    - rewrite (msg_field fd fr ts b rest "AVTP_CAN_FIELD_ESI" Hb eq_refl). destruct fd.
      + replace (last_write "AVTP_CAN_FIELD_ESI" (all_sets true fr ts)) with (Some (flag (cf_fflags fr) CANFD_ESI)) by reflexivity.
        change (fwidth_of spec_Can "AVTP_CAN_FIELD_ESI") with 1. destruct (flag_01 (cf_fflags fr) CANFD_ESI) as [H|H]; rewrite H; reflexivity.
      + reflexivity.
    - apply msg_payload; [split; assumption|exact Hb].
  Qed.

  (* ---------- the listener on one message ---------- *)
  Lemma slice_sub b off a n : slice (sub b off) a n = slice b (off + a) n.
  Proof.
    unfold slice, sub. apply map_ext. intros i. unfold byte_at, nthN. rewrite nth_skipn'. f_equal. f_equal. lia.
  Qed.

  Lemma cpl_value fd fr X : frame_ok fd fr -> msg_vals fd fr X -> 16 <= blen X ->
    can_payload_length LD ST cf_full X = Ok (cf_flen fr).
  Proof.
    intros [Hlen _] V Hb. unfold can_payload_length, getf_ded. cbn [cf_len cf_pad cf_full cf_spec].
    rewrite (fgetd_exact E spec_Can spec_Can_in) by (first [exact Hb | nok | eqrefl]). cbn [Paths.bind].
    rewrite (fgetd_exact E spec_Can spec_Can_in) by (first [exact Hb | nok | eqrefl]). cbn [Paths.bind].
    rewrite (v_len _ _ _ V), (v_pad _ _ _ V). f_equal. cbn [sp_hdr_len spec_Can].
    assert (Hl64 : cf_flen fr <= 64) by (destruct fd; lia).
    unfold msg_len, padof. lia.
  Qed.

  Definition id_out (fr:cframe) : N :=
    let id1 := if flag (cf_canid fr) CAN_EFF_FLAG =? 0 then idof fr else N.lor (idof fr) CAN_EFF_FLAG in
    if flag (cf_canid fr) CAN_RTR_FLAG =? 0 then id1 else N.lor id1 CAN_RTR_FLAG.
  Definition flags_out (fr:cframe) : N :=
    N.lor (N.lor (if flag (cf_fflags fr) CANFD_BRS =? 0 then 0 else CANFD_BRS) CANFD_FDF)
          (if flag (cf_fflags fr) CANFD_ESI =? 0 then 0 else CANFD_ESI).
  Definition sff_ok (fr:cframe) : Prop := flag (cf_canid fr) CAN_EFF_FLAG = 0 -> idof fr <= 0x7FF.
  Definition next_frame (fd:bool) (fs:fstate) (fr:cframe) : fstate :=
    mkfs (id_out fr) (cf_flen fr) (if fd then flags_out fr else fs_flags fs) (upd (fs_data fs) 0 (payload_of fr)).

  Lemma lloop_step fd pdu proc msg_length k mpb fs acc fr :
    blen pdu = 1500 -> proc + msg_length <= 1500 -> frame_ok fd fr -> sff_ok fr ->
    msg_vals fd fr (sub pdu (proc + mpb)) -> mpb + msg_len fr <= msg_length -> List.length (fs_data fs) = 64%nat ->
    lloop LD ST E (S k) pdu fd proc msg_length mpb fs acc =
    lloop LD ST E k pdu fd proc msg_length (mpb + msg_len fr) (next_frame fd fs fr) (render E fd (next_frame fd fs fr) :: acc).
  Proof.
    intros Hlen Hfit Hok Hsff V Hm Hd.
    assert (Hl : cf_flen fr <= (if fd then 64 else 8)) by (destruct Hok; assumption).
    assert (Hl64 : cf_flen fr <= 64) by (destruct fd; lia).
    assert (Hp : padof (cf_flen fr) < 4) by (unfold padof; apply N.mod_lt; discriminate).
    assert (Hml : 16 <= msg_len fr /\ msg_len fr <= 84 /\ msg_len fr mod 4 = 0 /\ cf_flen fr + 16 <= msg_len fr) by (unfold msg_len, padof; lia).
    destruct Hml as [Hm16 [Hm84 [Hm4 Hmp]]].
    cbn [lloop].
    replace (mpb <? msg_length) with true by (symmetry; apply N.ltb_lt; lia). cbn [negb].
    replace (msg_length - mpb <? 16) with false by (symmetry; apply N.ltb_ge; lia).
    set (off := proc + mpb) in *.
    assert (HbX : 16 <= blen (sub pdu off)) by (rewrite blen_sub, Hlen; unfold off; lia).
    rewrite (get_ok E spec_AcfCommon) by (first [nok | eqrefl | inspec | (rewrite Hlen; unfold off; cbn [sp_hdr_len spec_AcfCommon]; lia)]). cbn [lbind].
    rewrite (v_type _ _ _ V). cbn [N.eqb Pos.eqb negb].
    rewrite (get_ok E spec_Can) by (first [nok | eqrefl | inspec | (rewrite Hlen; unfold off; cbn [sp_hdr_len spec_Can]; lia)]). cbn [lbind].
    rewrite (get_ok E spec_Can) by (first [nok | eqrefl | inspec | (rewrite Hlen; unfold off; cbn [sp_hdr_len spec_Can]; lia)]). cbn [lbind].
    rewrite (cpl_value fd fr _ Hok V HbX). cbn [lbind].
    rewrite (v_id _ _ _ V), (v_len _ _ _ V).
    assert (Hacf : (msg_len fr / 4 * 4) mod 2 ^ 16 = msg_len fr) by lia. rewrite Hacf.
    match goal with |- context [if ?c then (XDropped, _) else _] =>
      replace c with false by (symmetry; repeat (apply orb_false_iff; split); apply N.ltb_ge; first [lia | destruct fd; lia]) end.
    rewrite (get_ok E spec_Can) by (first [nok | eqrefl | inspec | (rewrite Hlen; unfold off; cbn [sp_hdr_len spec_Can]; lia)]). cbn [lbind].
    rewrite (v_eff _ _ _ V).
    assert (Hsffb : (flag (cf_canid fr) CAN_EFF_FLAG =? 0) && (0x7FF <? idof fr) = false).
    { destruct (flag (cf_canid fr) CAN_EFF_FLAG =? 0) eqn:Ef; [|reflexivity]. apply N.eqb_eq in Ef. specialize (Hsff Ef). cbn [andb]. apply N.ltb_ge. exact Hsff. }
    rewrite Hsffb.
    rewrite (get_ok E spec_Can) by (first [nok | eqrefl | inspec | (rewrite Hlen; unfold off; cbn [sp_hdr_len spec_Can]; lia)]). cbn [lbind].
    rewrite (v_rtr _ _ _ V).
    assert (Hcopy : (cf_flen fr <=? (if fd then 64 else 8)) && (off + 16 + cf_flen fr <=? blen pdu) = true).
    { apply andb_true_iff. split; apply N.leb_le; [exact Hl|rewrite Hlen; unfold off; lia]. }
    assert (Hsl : slice pdu (off + 16) (N.to_nat (cf_flen fr)) = payload_of fr) by (rewrite <- slice_sub; exact (v_payload _ _ _ V)).
    fold (id_out fr).
    destruct fd.
    - rewrite (get_ok E spec_Can) by (first [nok | eqrefl | inspec | (rewrite Hlen; unfold off; cbn [sp_hdr_len spec_Can]; lia)]). cbn [lbind].
      rewrite (get_ok E spec_Can) by (first [nok | eqrefl | inspec | (rewrite Hlen; unfold off; cbn [sp_hdr_len spec_Can]; lia)]). cbn [lbind].
      rewrite (get_ok E spec_Can) by (first [nok | eqrefl | inspec | (rewrite Hlen; unfold off; cbn [sp_hdr_len spec_Can]; lia)]). cbn [lbind].
      rewrite (v_brs _ _ _ V), (v_fdf _ _ _ V), (v_esi _ _ _ V). rewrite Hcopy, Hsl. reflexivity.
    - rewrite Hcopy, Hsl. reflexivity.
  Qed.

  (* ---------- the listener on a run of messages ---------- *)
  Definition is_msg (fd:bool) (fr:cframe) (M:list N) : Prop := exists ts b, M = msg_bytes fd fr ts b /\ 16 <= blen b /\ normal b.
  Fixpoint total_len (frs:list cframe) : N := match frs with [] => 0 | fr :: r => msg_len fr + total_len r end.
  (* the frames written for a list of frames, starting from frame state fs *)
  Fixpoint frames_out (fd:bool) (fs:fstate) (frs:list cframe) : list (list N) :=
    match frs with [] => [] | fr :: r => render E fd (next_frame fd fs fr) :: frames_out fd (next_frame fd fs fr) r end.

  Lemma sub_sub b a c : sub (sub b a) c = sub b (a + c).
  Proof. unfold sub. rewrite skipn_skipn_plus. f_equal. lia. Qed.
  Lemma sub_app_len (l r:list N) : sub (l ++ r) (N.of_nat (List.length l)) = r.
  Proof. unfold sub. rewrite Nnat.Nat2N.id, skipn_app, skipn_all, Nat.sub_diag. reflexivity. Qed.

  Lemma lloop_run fd pdu proc msg_length : blen pdu = 1500 -> proc + msg_length <= 1500 ->
    forall frs Ms rest fuel mpb fs acc, Forall2 (is_msg fd) frs Ms -> Forall (frame_ok fd) frs -> Forall sff_ok frs ->
    sub pdu (proc + mpb) = List.concat Ms ++ rest -> mpb + total_len frs = msg_length -> List.length (fs_data fs) = 64%nat ->
    (List.length frs < fuel)%nat ->
    lloop LD ST E fuel pdu fd proc msg_length mpb fs acc = (XHandled, rev acc ++ frames_out fd fs frs).
  Proof.
    intros Hlen Hfit. induction frs as [|fr frs IH]; intros Ms rest fuel mpb fs acc HM Hok Hsff Hsub Htot Hd Hfuel.
    - destruct fuel as [|k]; [cbn in Hfuel; lia|]. cbn [lloop total_len frames_out] in *.
      replace (mpb <? msg_length) with false by (symmetry; apply N.ltb_ge; lia). cbn [negb]. rewrite app_nil_r. reflexivity.
    - destruct fuel as [|k]; [cbn in Hfuel; lia|].
      revert Htot Hfit IH. inversion HM as [|? M ? Ms' HisM HM']; subst. inversion Hok as [|? ? Hok1 Hok']; subst. inversion Hsff as [|? ? Hsff1 Hsff']; subst. intros Htot Hfit IH.
      destruct HisM as [ts [b [HMeq [Hb _]]]].
      cbn [List.concat] in Hsub. rewrite <- app_assoc in Hsub. cbn [total_len] in Htot.
      assert (V : msg_vals fd fr (sub pdu (proc + mpb))) by (rewrite Hsub, HMeq; apply msg_values; assumption).
      rewrite (lloop_step fd pdu proc msg_length k mpb fs acc fr Hlen Hfit Hok1 Hsff1 V) by (first [lia | exact Hd]).
      rewrite (IH Ms' rest k (mpb + msg_len fr) (next_frame fd fs fr) (render E fd (next_frame fd fs fr) :: acc) HM' Hok' Hsff').
      + cbn [rev frames_out]. rewrite <- app_assoc. reflexivity.
      + replace (proc + (mpb + msg_len fr)) with (proc + mpb + msg_len fr) by lia. rewrite <- sub_sub, Hsub.
        rewrite <- (len_msg_bytes fd fr ts b Hok1 Hb), <- HMeq. apply sub_app_len.
      + lia.
      + cbn [next_frame fs_data]. rewrite length_upd. exact Hd.
      + cbn [List.length] in Hfuel. lia.
  Qed.

  (* ---------- the talker: messages appended to the packet ---------- *)
  Lemma normal_firstn' (l:list N) n : normal l -> normal (firstn n l).
  Proof. unfold normal. intros H. apply Forall_forall. intros x Hx. rewrite Forall_forall in H. apply H. eapply In_firstn; eauto. Qed.
  Lemma normal_skipn' (l:list N) n : normal l -> normal (skipn n l).
  Proof. unfold normal. intros H. apply Forall_forall. intros x Hx. rewrite Forall_forall in H. apply H. eapply In_skipn; eauto. Qed.
  Lemma normal_msg_bytes fd fr ts b : frame_ok fd fr -> normal b -> normal (msg_bytes fd fr ts b).
  Proof.
    intros [_ [_ Hdn]] Hn. unfold msg_bytes. apply normal_app; [|apply normal_app].
    - apply normal_firstn'. unfold msg_hdr. apply normal_set_all. apply normal_app; [vm_compute; repeat constructor|apply normal_skipn'; exact Hn].
    - unfold payload_of. apply normal_firstn'. exact Hdn.
    - apply normal_repeat. lia.
  Qed.

  Lemma add_msgs_exact fd : forall frs pdu off cfl, normal pdu -> blen pdu = 1500 -> Forall (frame_ok fd) (map fst frs) ->
    off + total_len (map fst frs) <= 1500 -> cfl <= off ->
    exists Ms, Forall2 (is_msg fd) (map fst frs) Ms /\
      add_msgs LD ST fd frs pdu off cfl =
        Ok (firstn (N.to_nat off) pdu ++ List.concat Ms ++ skipn (N.to_nat (off + total_len (map fst frs))) pdu,
            (off + total_len (map fst frs), cfl + total_len (map fst frs))).
  Proof.
    induction frs as [|[fr ts] frs IH]; intros pdu off cfl Hn Hlen Hok Hfit Hcfl; cbn [add_msgs map fst total_len] in *.
    - exists []. split; [constructor|]. cbn [List.concat app]. rewrite !N.add_0_r, firstn_skipn. reflexivity.
    - inversion Hok as [|? ? Hok1 Hok']; subst.
      assert (Hl64 : cf_flen fr <= 64) by (destruct Hok1 as [H _]; destruct fd; lia).
      assert (Hml : 16 <= msg_len fr <= 84) by (unfold msg_len, padof; lia).
      unfold at_off.
      assert (HbS : blen (sub pdu off) = 1500 - off) by (rewrite blen_sub, Hlen; reflexivity).
      rewrite (prepare_exact fd fr ts (sub pdu off) Hok1) by (first [apply normal_skipn'; exact Hn | rewrite HbS; lia]).
      cbn [Paths.bind fst snd].
      set (M := msg_bytes fd fr ts (sub pdu off)).
      assert (HML : N.of_nat (List.length M) = msg_len fr) by (apply len_msg_bytes; [exact Hok1|rewrite HbS; lia]).
      set (pdu' := firstn (N.to_nat off) pdu ++ M ++ skipn (N.to_nat (msg_len fr)) (sub pdu off)).
      assert (HA : List.length (firstn (N.to_nat off) pdu) = N.to_nat off) by (rewrite firstn_length; unfold blen in Hlen; lia).
      assert (HR : skipn (N.to_nat (msg_len fr)) (sub pdu off) = skipn (N.to_nat (off + msg_len fr)) pdu).
      { unfold sub. rewrite skipn_skipn_plus. f_equal. lia. }
      assert (Hn' : normal pdu').
      { unfold pdu'. apply normal_app; [apply normal_firstn'; exact Hn|]. apply normal_app; [apply normal_msg_bytes; [exact Hok1|apply normal_skipn'; exact Hn]|].
        apply normal_skipn'. apply normal_skipn'. exact Hn. }
      assert (Hlen' : blen pdu' = 1500).
      { unfold pdu', blen. rewrite !app_length, HA, HR, skipn_length. unfold blen in Hlen. lia. }
      replace ((off + msg_len fr) mod 2 ^ 16) with (off + msg_len fr) by (symmetry; apply N.mod_small; lia).
      replace ((cfl + msg_len fr) mod 2 ^ 16) with (cfl + msg_len fr) by (symmetry; apply N.mod_small; lia).
      destruct (IH pdu' (off + msg_len fr) (cfl + msg_len fr) Hn' Hlen' Hok') as [Ms [HMs Hrun]]; [lia|lia|].
      exists (M :: Ms). split.
      + constructor; [|exact HMs]. exists ts, (sub pdu off). split; [reflexivity|split; [rewrite HbS; lia|apply normal_skipn'; exact Hn]].
      + rewrite Hrun. f_equal. f_equal; [|f_equal; lia].
        cbn [List.concat]. rewrite <- !app_assoc.
        assert (Hf : firstn (N.to_nat (off + msg_len fr)) pdu' = firstn (N.to_nat off) pdu ++ M).
        { unfold pdu'. rewrite app_assoc. rewrite firstn_app.
          replace (N.to_nat (off + msg_len fr) - List.length (firstn (N.to_nat off) pdu ++ M))%nat with 0%nat by (rewrite app_length; lia).
          cbn [firstn]. rewrite app_nil_r. apply firstn_all2. rewrite app_length. lia. }
        rewrite Hf. rewrite <- app_assoc. do 3 f_equal.
        unfold pdu'. rewrite app_assoc, skipn_app.
        rewrite skipn_all2 by (rewrite app_length; lia). cbn [app].
        replace (N.to_nat (off + msg_len fr + total_len (map fst frs)) - List.length (firstn (N.to_nat off) pdu ++ M))%nat
          with (N.to_nat (total_len (map fst frs))) by (rewrite app_length; lia).
        rewrite HR, skipn_skipn_plus. f_equal. lia.
  Qed.

  (* ---------- the control format header ---------- *)
  Definition cfS (tscf:bool) : sformat := if tscf then spec_Tscf else spec_Ntscf.
  Definition cf_hl (tscf:bool) : N := if tscf then 24 else 12.
  Definition cf_len_name (tscf:bool) : string := if tscf then "AVTP_TSCF_FIELD_STREAM_DATA_LENGTH" else "AVTP_NTSCF_FIELD_NTSCF_DATA_LENGTH".
  Definition cf_sub_name (tscf:bool) : string := if tscf then "AVTP_TSCF_FIELD_SUBTYPE" else "AVTP_NTSCF_FIELD_SUBTYPE".
  Definition cf_init_sets (tscf:bool) (seq:N) : list (string * N) :=
    if tscf then [("AVTP_TSCF_FIELD_TU", 0); ("AVTP_TSCF_FIELD_SEQUENCE_NUM", seq); ("AVTP_TSCF_FIELD_STREAM_ID", STREAM_ID)]
    else [("AVTP_NTSCF_FIELD_SEQUENCE_NUM", seq); ("AVTP_NTSCF_FIELD_STREAM_ID", STREAM_ID)].
  Definition cf_canon (tscf:bool) : buf := match canonical_header (cfS tscf) with Some h => h | None => [] end.
  Definition cf_hdr (tscf:bool) (seq:N) (b:buf) : buf :=
    set_all (cfS tscf) (cf_init_sets tscf seq) (cf_canon tscf ++ skipn (N.to_nat (cf_hl tscf)) b).
  Lemma cfS_in tscf : In (cfS tscf) all_specs.
  Proof. destruct tscf; [exact in_Tscf|exact in_Ntscf]. Qed.
  Lemma cf_hl_ok tscf : sp_hdr_len (cfS tscf) = cf_hl tscf.
  Proof. destruct tscf; reflexivity. Qed.
  Lemma cf_canon_len tscf : N.of_nat (List.length (cf_canon tscf)) = cf_hl tscf.
  Proof. destruct tscf; reflexivity. Qed.

  Lemma skipn_zero_prefix b n : N.of_nat n <= blen b -> skipn n (upd b 0 (repeat 0 n)) = skipn n b.
  Proof.
    intros H. rewrite upd_as_app by (rewrite repeat_length; lia). cbn [N.to_nat firstn app]. rewrite repeat_length.
    rewrite skipn_app, repeat_length. rewrite skipn_all2 by (rewrite repeat_length; lia). rewrite Nat.sub_diag. reflexivity.
  Qed.

  Lemma init_cf_exact tscf seq b : normal b -> cf_hl tscf <= blen b ->
    init_cf LD ST tscf seq b = Ok (cf_hdr tscf seq b, cf_hl tscf).
  Proof.
    intros Hn Hb. unfold init_cf, only, cf_hdr.
    assert (G : forall s h hl l, In s all_specs -> canonical_header s = Some h -> sp_init s <> "" -> sp_hdr_len s = hl -> hl <= blen b ->
                forallb (fun nv => name_ok s (fst nv)) l = true ->
                Paths.bind (zero hl b) (fun b1 => Paths.bind (finit LD ST s b1) (sets LD ST s l)) = Ok (set_all s l (h ++ skipn (N.to_nat hl) b))).
    { intros s h hl l Hs Hc Hi Hh Hhl Hl. rewrite zero_exact by exact Hhl. cbn [Paths.bind].
      set (b0 := upd b 0 (repeat 0 (N.to_nat hl))).
      assert (Hn0 : normal b0) by (apply normal_upd; [exact Hn|apply normal_repeat; lia]).
      assert (Hb0 : blen b0 = blen b) by apply blen_upd.
      rewrite (finit_exact s h b0 Hs Hc Hi Hn0) by (rewrite Hb0, Hh; exact Hhl). cbn [Paths.bind]. rewrite Hh.
      unfold b0. rewrite skipn_zero_prefix by (rewrite Nnat.N2Nat.id; exact Hhl).
      assert (Hlh : N.of_nat (List.length h) = hl).
      { destruct (layout s Hs) as [h' [Hc' [Hlen' _]]]. rewrite Hc in Hc'. inversion Hc'; subst h'. unfold blen in Hlen'. lia. }
      apply sets_exact; [exact Hs|exact Hl| |].
      - apply normal_app; [|apply normal_skipn'; exact Hn]. destruct (layout s Hs) as [h' [Hc' [_ [Hnh _]]]]. rewrite Hc in Hc'. inversion Hc'; subst h'. exact Hnh.
      - unfold blen in *. rewrite app_length, skipn_length. lia. }
    destruct tscf; cbn [cf_hl cfS cf_init_sets cf_canon] in *.
    - rewrite (G spec_Tscf (cf_canon true) 24) by (first [inspec | nok | eqrefl | discriminate | exact Hb]). reflexivity.
    - rewrite (G spec_Ntscf (cf_canon false) 12) by (first [inspec | nok | eqrefl | discriminate | exact Hb]). reflexivity.
  Qed.

  (* ---------- the whole packet ---------- *)
  Lemma concat_len fd : forall frs Ms, Forall2 (is_msg fd) frs Ms -> Forall (frame_ok fd) frs ->
    N.of_nat (List.length (List.concat Ms)) = total_len frs.
  Proof.
    induction 1 as [|fr M frs Ms HM _ IH]; intros Hok; [reflexivity|]. inversion Hok; subst.
    cbn [List.concat total_len]. rewrite app_length. destruct HM as [ts [b [-> [Hb _]]]].
    rewrite Nnat.Nat2N.inj_add, (len_msg_bytes fd fr ts b) by assumption. rewrite IH by assumption. reflexivity.
  Qed.
  Lemma normal_concat_msgs fd : forall frs Ms, Forall2 (is_msg fd) frs Ms -> Forall (frame_ok fd) frs -> normal (List.concat Ms).
  Proof.
    induction 1 as [|fr M frs Ms HM _ IH]; intros Hok; [constructor|]. inversion Hok as [|? ? Hok1 Hok']; subst.
    cbn [List.concat]. apply normal_app; [|apply IH; exact Hok']. destruct HM as [ts [b [-> [Hb Hnb]]]]. apply normal_msg_bytes; assumption.
  Qed.
  Lemma firstn_exact {A} (l r:list A) : firstn (List.length l) (l ++ r) = l.
  Proof. rewrite firstn_app, Nat.sub_diag, firstn_all. cbn [firstn]. apply app_nil_r. Qed.

  Lemma cf_names_ok tscf : name_ok (cfS tscf) (cf_len_name tscf) = true /\ name_ok (cfS tscf) (cf_sub_name tscf) = true /\
    cf_sub_name tscf <> cf_len_name tscf /\ forallb (fun nv => name_ok (cfS tscf) (fst nv)) (cf_init_sets tscf 0) = true.
  Proof. destruct tscf; repeat split; try reflexivity; discriminate. Qed.
  Lemma cf_init_sets_ok tscf seq : forallb (fun nv => name_ok (cfS tscf) (fst nv)) (cf_init_sets tscf seq) = true.
  Proof. destruct tscf; reflexivity. Qed.

  Theorem talker_structure (udp tscf fd:bool) seq udpseq frs pdu :
    normal pdu -> blen pdu = 1500 -> Forall (frame_ok fd) (map fst frs) ->
    (if udp then 4 else 0) + cf_hl tscf + total_len (map fst frs) <= 1500 ->
    exists U Hd Ms pdu', talker_packet LD ST udp tscf fd seq udpseq frs pdu = Ok (U ++ Hd ++ List.concat Ms, pdu') /\
      N.of_nat (List.length U) = (if udp then 4 else 0) /\ N.of_nat (List.length Hd) = cf_hl tscf /\
      Forall2 (is_msg fd) (map fst frs) Ms /\
      (forall rest, ref_get (cfS tscf) (cf_sub_name tscf) (Hd ++ rest) = if tscf then 5 else 0x82) /\
      (forall rest, ref_get (cfS tscf) (cf_len_name tscf) (Hd ++ rest) = total_len (map fst frs)).
  Proof.
    intros Hn Hlen Hok Hfit. set (T := total_len (map fst frs)) in *. set (hl := cf_hl tscf) in *.
    assert (Hhl : hl = 12 \/ hl = 24) by (unfold hl, cf_hl; destruct tscf; [right|left]; reflexivity).
    unfold talker_packet.
    (* encapsulation header *)
    assert (H0 : exists pdu1, (if udp then Paths.bind (at_off pdu 0 (fun b => only (fsetf LD ST spec_Udp "AVTP_UDP_FIELD_ENCAPSULATION_SEQ_NO" udpseq b) tt))
                                            (fun r => Ok (fst r, 4)) else Ok (pdu, 0)) = Ok (pdu1, if udp then 4 else 0) /\ normal pdu1 /\ blen pdu1 = 1500).
    { destruct udp; [|exists pdu; repeat split; assumption].
      unfold at_off, only, sub. cbn [N.to_nat skipn firstn app].
      rewrite (fsetf_exact E spec_Udp) by (first [inspec | nok | eqrefl | exact Hn | (rewrite Hlen; cbn; lia)]).
      cbn [Paths.bind fst snd]. eexists. split; [reflexivity|]. split; [apply FieldOpsProofs.normal_ref_set; exact Hn|rewrite FieldOpsProofs.blen_ref_set; exact Hlen]. }
    destruct H0 as [pdu1 [H0 [Hn1 Hlen1]]]. rewrite H0. cbn [Paths.bind fst snd]. clear H0.
    set (cf_off := if udp then 4 else 0) in *.
    assert (Hco : cf_off <= 4) by (unfold cf_off; destruct udp; lia).
    (* control header *)
    unfold at_off at 1.
    assert (HbS : blen (sub pdu1 cf_off) = 1500 - cf_off) by (rewrite blen_sub, Hlen1; reflexivity).
    rewrite (init_cf_exact tscf seq (sub pdu1 cf_off)) by (first [apply normal_skipn'; exact Hn1 | (rewrite HbS; fold hl; lia)]).
    cbn [Paths.bind fst snd]. fold hl.
    set (Hb := cf_hdr tscf seq (sub pdu1 cf_off)).
    assert (HnHb : normal Hb).
    { unfold Hb, cf_hdr. apply normal_set_all. apply normal_app; [destruct tscf; vm_compute; repeat constructor|apply normal_skipn'; apply normal_skipn'; exact Hn1]. }
    assert (HbHb : blen Hb = 1500 - cf_off).
    { unfold Hb, cf_hdr. rewrite blen_set_all. unfold blen. rewrite app_length, skipn_length. pose proof (cf_canon_len tscf) as Hc. fold hl in Hc.
      unfold blen in HbS. fold hl. lia. }
    set (pdu1' := firstn (N.to_nat cf_off) pdu1 ++ Hb).
    assert (HA : List.length (firstn (N.to_nat cf_off) pdu1) = N.to_nat cf_off) by (rewrite firstn_length; unfold blen in Hlen1; lia).
    assert (Hn1' : normal pdu1') by (unfold pdu1'; apply normal_app; [apply normal_firstn'; exact Hn1|exact HnHb]).
    assert (Hlen1' : blen pdu1' = 1500) by (unfold pdu1', blen; rewrite app_length, HA; unfold blen in HbHb; lia).
    (* messages *)
    destruct (add_msgs_exact fd frs pdu1' (cf_off + hl) hl Hn1' Hlen1' Hok) as [Ms [HMs Hadd]]; [fold T; lia|lia|].
    rewrite Hadd. cbn [Paths.bind fst snd]. fold T. clear Hadd.
    pose proof (concat_len fd _ _ HMs Hok) as HcL. fold T in HcL.
    set (Hd0 := firstn (N.to_nat hl) Hb).
    assert (HHd0 : List.length Hd0 = N.to_nat hl) by (unfold Hd0; rewrite firstn_length; unfold blen in HbHb; lia).
    assert (Hpre : firstn (N.to_nat (cf_off + hl)) pdu1' = firstn (N.to_nat cf_off) pdu1 ++ Hd0).
    { unfold pdu1'. rewrite firstn_app, HA. rewrite firstn_all2 by lia. f_equal. unfold Hd0. f_equal. lia. }
    rewrite Hpre.
    set (tl0 := skipn (N.to_nat (cf_off + hl + T)) pdu1').
    set (pdu2 := (firstn (N.to_nat cf_off) pdu1 ++ Hd0) ++ List.concat Ms ++ tl0).
    (* the data length *)
    assert (Hsub2 : sub pdu2 cf_off = Hd0 ++ List.concat Ms ++ tl0).
    { unfold pdu2. rewrite <- app_assoc. set (A := firstn (N.to_nat cf_off) pdu1) in *.
      replace cf_off with (N.of_nat (List.length A)) by (rewrite HA; lia). apply sub_app_len. }
    assert (Hnt : normal tl0) by (unfold tl0; apply normal_skipn'; exact Hn1').
    assert (HnMs : normal (List.concat Ms)) by (apply (normal_concat_msgs fd _ _ HMs Hok)).
    set (A := firstn (N.to_nat cf_off) pdu1) in *.
    set (W := Hd0 ++ List.concat Ms ++ tl0) in *.
    assert (HnW : normal W) by (unfold W; apply normal_app; [unfold Hd0; apply normal_firstn'; exact HnHb|apply normal_app; assumption]).
    assert (Htl : List.length tl0 = (1500 - N.to_nat (cf_off + hl + T))%nat) by (unfold tl0; rewrite skipn_length; unfold blen in Hlen1'; lia).
    assert (HbW : blen W = 1500 - cf_off) by (unfold W, blen; rewrite !app_length, HHd0, Htl; lia).
    destruct (cf_names_ok tscf) as [HokL [HokS [Hne _]]].
    pose proof (cfS_in tscf) as HSin. pose proof (cf_hl_ok tscf) as HShl. fold hl in HShl.
    unfold at_off. rewrite Hsub2.
    assert (Hset : (if tscf then fsetf LD ST spec_Tscf "AVTP_TSCF_FIELD_STREAM_DATA_LENGTH" (hl + T - 24) W
                    else fsetf LD ST spec_Ntscf "AVTP_NTSCF_FIELD_NTSCF_DATA_LENGTH" (hl + T - 12) W) = Ok (ref_set (cfS tscf) (cf_len_name tscf) T W)).
    { replace (if tscf then fsetf LD ST spec_Tscf "AVTP_TSCF_FIELD_STREAM_DATA_LENGTH" (hl + T - 24) W else fsetf LD ST spec_Ntscf "AVTP_NTSCF_FIELD_NTSCF_DATA_LENGTH" (hl + T - 12) W)
        with (fsetf LD ST (cfS tscf) (cf_len_name tscf) T W)
        by (unfold hl, cf_hl; destruct tscf; cbn [cfS cf_len_name]; f_equal; lia).
      apply (fsetf_exact E (cfS tscf) HSin); [exact HokL|exact HnW|rewrite HShl, HbW; lia]. }
    unfold only. rewrite Hset. cbn [Paths.bind fst snd]. clear Hset.
    set (Y := ref_set (cfS tscf) (cf_len_name tscf) T W).
    assert (HnY : normal Y) by (apply FieldOpsProofs.normal_ref_set; exact HnW).
    assert (HbY : blen Y = 1500 - cf_off) by (unfold Y; rewrite FieldOpsProofs.blen_ref_set; exact HbW).
    assert (HfA : firstn (N.to_nat cf_off) pdu2 = A).
    { unfold pdu2. rewrite <- !app_assoc. replace (N.to_nat cf_off) with (List.length A) by exact HA. apply firstn_exact. }
    rewrite HfA.
    set (Hd := firstn (N.to_nat hl) Y).
    assert (HHd : List.length Hd = N.to_nat hl) by (unfold Hd; rewrite firstn_length; unfold blen in HbY; lia).
    assert (HskY : skipn (N.to_nat hl) Y = List.concat Ms ++ tl0).
    { unfold Y. rewrite <- HShl. rewrite (skipn_ref_set (cfS tscf) (cf_len_name tscf) T W HSin HokL HnW). rewrite HShl.
      unfold W. rewrite skipn_app, <- HHd0, skipn_all, Nat.sub_diag. reflexivity. }
    assert (Hsent : firstn (N.to_nat (cf_off + hl + T)) (A ++ Y) = A ++ Hd ++ List.concat Ms).
    { rewrite firstn_app, HA. rewrite firstn_all2 by lia. f_equal.
      replace (N.to_nat (cf_off + hl + T) - N.to_nat cf_off)%nat with (N.to_nat hl + N.to_nat T)%nat by lia.
      rewrite <- (firstn_skipn (N.to_nat hl) Y) at 1. fold Hd. rewrite HskY.
      rewrite firstn_app, HHd. rewrite firstn_all2 by lia. f_equal.
      replace (N.to_nat hl + N.to_nat T - N.to_nat hl)%nat with (List.length (List.concat Ms)) by lia. apply firstn_exact. }
    rewrite Hsent.
    exists A, Hd, Ms, (A ++ Y). split; [reflexivity|]. split; [rewrite HA; lia|]. split; [rewrite HHd; lia|]. split; [exact HMs|].
    assert (Hread : forall name rest, name_ok (cfS tscf) name = true -> ref_get (cfS tscf) name (Hd ++ rest) = ref_get (cfS tscf) name Y).
    { intros name rest Hnm. rewrite (ref_get_app (cfS tscf) name Hd rest HSin Hnm) by (rewrite HShl; unfold blen; rewrite HHd; lia).
      symmetry. rewrite <- (firstn_skipn (N.to_nat hl) Y). fold Hd. apply (ref_get_app (cfS tscf) name Hd _ HSin Hnm). rewrite HShl. unfold blen. rewrite HHd. lia. }
    split; intros rest.
    - rewrite (Hread _ rest HokS). unfold Y. rewrite (FieldOpsProofs.ref_get_other (cfS tscf) HSin _ _ T W HokS HokL Hne).
      unfold W. rewrite (ref_get_app (cfS tscf) _ Hd0 _ HSin HokS) by (rewrite HShl; unfold blen; rewrite HHd0; lia).
      rewrite <- (ref_get_app (cfS tscf) _ Hd0 (skipn (N.to_nat hl) Hb) HSin HokS) by (rewrite HShl; unfold blen; rewrite HHd0; lia).
      unfold Hd0. rewrite firstn_skipn. unfold Hb, cf_hdr.
      rewrite (ref_get_set_all (cfS tscf) _ _ HSin HokS (cf_init_sets_ok tscf seq))
        by (rewrite HShl; unfold blen; rewrite app_length, skipn_length; pose proof (cf_canon_len tscf) as Hc; fold hl in Hc; unfold blen in HbS; fold hl; lia).
      replace (last_write (cf_sub_name tscf) (cf_init_sets tscf seq)) with (@None N) by (destruct tscf; reflexivity).
      rewrite (ref_get_app (cfS tscf) _ (cf_canon tscf) _ HSin HokS) by (rewrite HShl; unfold blen; pose proof (cf_canon_len tscf) as Hc; fold hl in Hc; lia).
      destruct tscf; reflexivity.
    - rewrite (Hread _ rest HokL). unfold Y. rewrite (FieldOpsProofs.ref_get_same (cfS tscf) HSin _ T W HokL) by (rewrite HShl, HbW; lia).
      apply N.mod_small. destruct tscf; cbn; lia.
  Qed.

  Lemma total_ge fd : forall frs, Forall (frame_ok fd) frs -> 16 * N.of_nat (List.length frs) <= total_len frs.
  Proof.
    induction 1 as [|fr frs Hok _ IH]; [cbn; lia|]. cbn [List.length total_len]. unfold msg_len at 1. lia.
  Qed.

  (* talker then listener *)
  Theorem tunnel (udp tscf fd:bool) seq udpseq frs pdu stale :
    normal pdu -> blen pdu = 1500 -> List.length stale = 1500%nat ->
    Forall (frame_ok fd) (map fst frs) -> Forall sff_ok (map fst frs) ->
    (if udp then 4 else 0) + cf_hl tscf + total_len (map fst frs) <= 1500 ->
    exists sent pdu', talker_packet LD ST udp tscf fd seq udpseq frs pdu = Ok (sent, pdu') /\
      N.of_nat (List.length sent) = (if udp then 4 else 0) + cf_hl tscf + total_len (map fst frs) /\
      (forall rest, ref_get (cfS tscf) (cf_len_name tscf) (sub (sent ++ rest) (if udp then 4 else 0)) = total_len (map fst frs)) /\
      can_listener LD ST E udp fd sent stale = (XHandled, frames_out fd frame0 (map fst frs)).
  Proof.
    intros Hn Hlen Hst Hok Hsff Hfit.
    destruct (talker_structure udp tscf fd seq udpseq frs pdu Hn Hlen Hok Hfit) as [U [Hd [Ms [pdu' [Hrun [HU [HHd [HMs [Hsub Hdl]]]]]]]]].
    pose proof (concat_len fd _ _ HMs Hok) as HcL.
    set (T := total_len (map fst frs)) in *. set (hl := cf_hl tscf) in *. set (proc0 := if udp then 4 else 0) in *.
    assert (Hhl : hl = 12 \/ hl = 24) by (unfold hl, cf_hl; destruct tscf; [right|left]; reflexivity).
    assert (Hp0 : proc0 <= 4) by (unfold proc0; destruct udp; lia).
    exists (U ++ Hd ++ List.concat Ms), pdu'. split; [exact Hrun|].
    assert (Hsl : N.of_nat (List.length (U ++ Hd ++ List.concat Ms)) = proc0 + hl + T) by (rewrite !app_length; lia).
    split; [exact Hsl|]. split.
    { intros rest. rewrite <- !app_assoc. rewrite <- HU. rewrite sub_app_len. apply Hdl. }
    unfold can_listener. change (N.to_nat MAX_PDU_SIZE) with 1500%nat.
    set (sent := U ++ Hd ++ List.concat Ms) in *.
    rewrite (firstn_all2 sent) by lia.
    set (stale' := skipn (List.length sent) stale).
    set (pduL := sent ++ stale').
    assert (HlenL : blen pduL = 1500) by (unfold pduL, stale', blen; rewrite app_length, skipn_length; lia).
    rewrite Hsl. fold proc0.
    replace (proc0 + hl + T <? proc0 + 12) with false by (symmetry; apply N.ltb_ge; lia).
    assert (Hudp : exists x, (if udp then get LD ST spec_Udp "AVTP_UDP_FIELD_ENCAPSULATION_SEQ_NO" pduL 0 else Ok 0) = Ok x).
    { destruct udp; [|eexists; reflexivity]. rewrite (get_ok E); [eexists; reflexivity|inspec|nok|rewrite HlenL; cbn; lia]. }
    destruct Hudp as [x Hx]. rewrite Hx. cbn [lbind]. clear Hx x.
    assert (HsubL : sub pduL proc0 = Hd ++ List.concat Ms ++ stale').
    { unfold pduL, sent. rewrite <- !app_assoc. rewrite <- HU. apply sub_app_len. }
    rewrite (get_ok E spec_CommonHeader) by (first [nok | eqrefl | inspec | (rewrite HlenL; cbn [sp_hdr_len spec_CommonHeader]; lia)]). cbn [lbind].
    rewrite HsubL.
    assert (Hst' : ref_get spec_CommonHeader "AVTP_COMMON_HEADER_FIELD_SUBTYPE" (Hd ++ List.concat Ms ++ stale') = if tscf then 5 else 0x82).
    { rewrite <- (Hsub (List.concat Ms ++ stale')). destruct tscf; reflexivity. }
    rewrite Hst'.
    assert (HsubM : sub pduL (proc0 + hl + 0) = List.concat Ms ++ stale').
    { rewrite N.add_0_r, <- sub_sub, HsubL. rewrite <- HHd. apply sub_app_len. }
    assert (Hfuel : (List.length (map fst frs) < 2048)%nat).
    { pose proof (total_ge fd _ Hok) as Hg. fold T in Hg. lia. }
    destruct tscf; cbn [N.eqb Pos.eqb orb negb].
    - replace hl with 24 in * by reflexivity.
      replace (proc0 + 24 + T <? proc0 + 24) with false by (symmetry; apply N.ltb_ge; lia).
      rewrite (get_ok E spec_Tscf) by (first [nok | eqrefl | inspec | (rewrite HlenL; cbn [sp_hdr_len spec_Tscf]; lia)]). cbn [lbind].
      rewrite HsubL. pose proof (Hdl (List.concat Ms ++ stale')) as Hd1. cbn [cfS cf_len_name] in Hd1. rewrite Hd1.
      replace (proc0 + 24 + T - (proc0 + 24) <? T) with false by (symmetry; apply N.ltb_ge; lia).
      rewrite (lloop_run fd pduL (proc0 + 24) T HlenL) with (frs := map fst frs) (Ms := Ms) (rest := stale');
        [reflexivity|lia|exact HMs|exact Hok|exact Hsff|exact HsubM|lia|reflexivity|exact Hfuel].
    - replace hl with 12 in * by reflexivity.
      rewrite (get_ok E spec_Ntscf) by (first [nok | eqrefl | inspec | (rewrite HlenL; cbn [sp_hdr_len spec_Ntscf]; lia)]). cbn [lbind].
      rewrite HsubL. pose proof (Hdl (List.concat Ms ++ stale')) as Hd1. cbn [cfS cf_len_name] in Hd1. rewrite Hd1.
      replace (proc0 + 12 + T - (proc0 + 12) <? T) with false by (symmetry; apply N.ltb_ge; lia).
      rewrite (lloop_run fd pduL (proc0 + 12) T HlenL) with (frs := map fst frs) (Ms := Ms) (rest := stale');
        [reflexivity|lia|exact HMs|exact Hok|exact Hsff|exact HsubM|lia|reflexivity|exact Hfuel].
  Qed.

  (* ---------- what the frames written are, field by field ---------- *)
  Lemma id_out_bits fr n : N.testbit (id_out fr) n =
    if n <? 29 then N.testbit (cf_canid fr) n else if n =? 31 then N.testbit (cf_canid fr) 31 else if n =? 30 then N.testbit (cf_canid fr) 30 else false.
  Proof.
    unfold id_out. change CAN_EFF_FLAG with (2 ^ 31). change CAN_RTR_FLAG with (2 ^ 30). rewrite !flag_bit.
    assert (Hid : N.testbit (idof fr) n = if n <? 29 then N.testbit (cf_canid fr) n else false).
    { unfold idof, CAN_EFF_MASK. change 0x1FFFFFFF with (N.ones 29). rewrite N.land_spec.
      destruct (N.ltb_spec n 29) as [H|H]; [rewrite N.ones_spec_low by exact H; apply andb_true_r|rewrite N.ones_spec_high by exact H; apply andb_false_r]. }
    destruct (N.testbit (cf_canid fr) 31) eqn:B31; destruct (N.testbit (cf_canid fr) 30) eqn:B30; cbn [N.eqb Pos.eqb];
      rewrite ?N.lor_spec, ?N.pow2_bits_eqb, Hid;
      destruct (N.ltb_spec n 29) as [H|H]; destruct (N.eqb_spec n 31) as [H1|H1]; destruct (N.eqb_spec n 30) as [H0|H0];
      destruct (N.eqb_spec 31 n); destruct (N.eqb_spec 30 n); subst; try lia; try reflexivity;
      rewrite ?orb_false_r, ?orb_true_r; try reflexivity; try congruence.
  Qed.
  Lemma flags_out_bits fr n : N.testbit (flags_out fr) n =
    if n =? 0 then N.testbit (cf_fflags fr) 0 else if n =? 1 then N.testbit (cf_fflags fr) 1 else (n =? 2).
  Proof.
    unfold flags_out. change CANFD_BRS with (2 ^ 0). change CANFD_ESI with (2 ^ 1). change CANFD_FDF with (2 ^ 2). rewrite !flag_bit.
    destruct (N.testbit (cf_fflags fr) 0) eqn:B0; destruct (N.testbit (cf_fflags fr) 1) eqn:B1; cbn [N.eqb Pos.eqb];
      rewrite ?N.lor_spec, ?N.pow2_bits_eqb, ?N.bits_0;
      destruct (N.eqb_spec n 0); destruct (N.eqb_spec n 1); destruct (N.eqb_spec n 2);
      destruct (N.eqb_spec 0 n); destruct (N.eqb_spec 1 n); destruct (N.eqb_spec 2 n); subst; try lia; try reflexivity; try congruence.
  Qed.
  Lemma next_frame_data fd fs fr : frame_ok fd fr -> List.length (fs_data fs) = 64%nat -> normal (fs_data fs) ->
    firstn (N.to_nat (cf_flen fr)) (fs_data (next_frame fd fs fr)) = firstn (N.to_nat (cf_flen fr)) (cf_fdata fr) /\
    List.length (fs_data (next_frame fd fs fr)) = 64%nat.
  Proof.
    intros [Hlen [Hdl Hdn]] Hd Hn. cbn [next_frame fs_data]. split; [|rewrite length_upd; exact Hd].
    assert (Hl64 : cf_flen fr <= 64) by (destruct fd; lia).
    assert (Hpl : List.length (payload_of fr) = N.to_nat (cf_flen fr)).
    { unfold payload_of. rewrite firstn_length, Hdl. destruct fd; lia. }
    rewrite upd_as_app by (unfold blen; rewrite Hpl, Hd; lia). cbn [N.to_nat firstn app].
    rewrite <- Hpl at 1. rewrite firstn_exact. reflexivity.
  Qed.
End Tunnel.
