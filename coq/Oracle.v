(* Executable interface of the models and of the reference semantics, run by
   the extracted oracle on the same command lines the C harness runs.
   Instantiated for the little-endian host the implementation is executed on
   (helpers = the little-endian branch of Byteorder.h as generated). *)
From Coq Require Import List NArith Bool String.
From O1722 Require Import Bits CExpr Host FieldModel AccModel LegacyModel Spec Paths CanModel VssModel VssSpec ExCan ExListeners.
From O1722.Generated Require Import Byteorder Tables.
Import ListNotations.
Local Open Scope N_scope.

Definition hostE : endian := LE.
(* [fbe]: the library was compiled with the big-endian helper set forced on this little-endian host (a deliberately
   mismatched configuration whose - wrong - bytes the model instance (helpers = BE, memory = LE) must predict exactly;
   it shows that every conversion site of the code uses the helper the model says it uses) *)
Section Instance.
Variable fbe : bool.
Definition m_helpers : hset := if fbe then helpers_BE else helpers_LE.
Definition m_ldq := Host.ldq hostE m_helpers.
Definition m_stq := Host.stq hostE m_helpers.

Inductive res :=
| RVal (v:N)                   (* returned value *)
| RBuf (b:option buf)          (* resulting buffer (None = null pdu) *)
| ROob                         (* access outside the buffer *)
| RUnmod                       (* outside the model / spec has nothing to say *)
| RNoSuch.                     (* unknown name *)

Definition of_outN (o:outcome N) : res :=
  match o with Ok v => RVal v | OOB _ => ROob | Unmodelled => RUnmod end.
Definition of_outB (o:outcome (option buf)) : res :=
  match o with Ok b => RBuf b | OOB _ => ROob | Unmodelled => RUnmod end.

Fixpoint find_getter_all (us:list unit_model) (n:string) : option (unit_model * getter) :=
  match us with
  | [] => None
  | u :: r => match find_getter (u_getters u) n with Some g => Some (u, g) | None => find_getter_all r n end
  end.
Fixpoint find_setter_all (us:list unit_model) (n:string) : option (unit_model * setter) :=
  match us with
  | [] => None
  | u :: r => match find_setter (u_setters u) n with Some s => Some (u, s) | None => find_setter_all r n end
  end.
Fixpoint find_init_all (us:list unit_model) (n:string) : option (unit_model * init) :=
  match us with
  | [] => None
  | u :: r => match find_init (u_inits u) n with Some i => Some (u, i) | None => find_init_all r n end
  end.

(* ---- model side ---- *)
Definition m_getter (name:string) (pdu:option buf) (params:list N) : res :=
  match find_getter_all all_units name with
  | Some (u, g) => of_outN (run_getter m_ldq m_stq cfg (u_tables u) g pdu params)
  | None => RNoSuch
  end.
Definition m_setter (name:string) (pdu:option buf) (params:list N) : res :=
  match find_setter_all all_units name with
  | Some (u, s) => of_outB (run_setter m_ldq m_stq cfg (u_tables u) s pdu params)
  | None => RNoSuch
  end.
Definition m_init (name:string) (pdu:option buf) : res :=
  match find_init_all all_units name with
  | Some (u, i) => of_outB (run_init m_ldq m_stq cfg u i pdu)
  | None => RNoSuch
  end.
(* the generic reader / writer called with a one-row table *)
Definition m_rawget (qw:N) (d:desc) (b:buf) : res := of_outN (get_via m_ldq m_stq qw d b).
Definition m_rawset (qw:N) (d:desc) (b:buf) (v:N) : res :=
  match set_via m_ldq m_stq qw d b v with Ok b' => RBuf (Some b') | OOB _ => ROob | Unmodelled => RUnmod end.

(* ---- reference side: by format name and field enumerator name ---- *)
Definition s_get (fmt field:string) (b:buf) : res :=
  match find_spec all_specs fmt with
  | Some s => match find_sfield (sp_fields s) field with
              | Some f => if sp_hdr_len s <=? blen b then RVal (spec_extract b (sf_first f) (sf_width f)) else RUnmod
              | None => RNoSuch end
  | None => RNoSuch
  end.
Definition s_set (fmt field:string) (b:buf) (v:N) : res :=
  match find_spec all_specs fmt with
  | Some s => match find_sfield (sp_fields s) field with
              | Some f => if sp_hdr_len s <=? blen b then RBuf (Some (spec_insert b (sf_first f) (sf_width f) v)) else RUnmod
              | None => RNoSuch end
  | None => RNoSuch
  end.
Definition s_init (fmt:string) (b:buf) : res :=
  match find_spec all_specs fmt with
  | Some s => match canonical_header s with
              | Some h => if sp_hdr_len s <=? blen b then RBuf (Some (h ++ skipn (N.to_nat (sp_hdr_len s)) b)) else RUnmod
              | None => RUnmod end
  | None => RNoSuch
  end.

(* ---- byte-order helpers: evaluation of the generated term ---- *)
Definition m_helper (be_branch:bool) (k:hkind) (w:hwidth) (x:N) : res :=
  match eval x ((if be_branch then helpers_BE else helpers_LE) k w) with
  | Some r => RVal r
  | None => RUnmod
  end.

(* ---- deprecated entry points ---- *)
Inductive lout := LR (ok:bool) (pdu:option buf) (r:option N) | LOob | LUnmod | LNoSuch.
Fixpoint find_legacy_all (lu:list (string * list legacy)) (n:string) : option (string * list legacy * legacy) :=
  match lu with
  | [] => None
  | (src, ls) :: r => match find_legacy ls n with Some l => Some (src, ls, l) | None => find_legacy_all r n end
  end.
Definition m_legacy (name:string) (pdu:option buf) (params:list N) (r:option N) : lout :=
  match find_legacy_all legacy_units name with
  | Some (src, ls, l) =>
      match find_unit all_units src with
      | Some u => match run_legacy m_ldq m_stq cfg u ls l pdu params r with
                  | Ok (LOk, p, x) => LR true p x
                  | Ok (LEinval, p, x) => LR false p x
                  | OOB _ => LOob
                  | Unmodelled => LUnmod
                  end
      | None => LNoSuch
      end
  | None => LNoSuch
  end.

(* ---- ACF-CAN builders ---- *)
Inductive cout := CB (b:buf) (ret:N) | CV (v:N) | COob | CUnmod.
Definition of_can (o:outcome (buf * N)) : cout :=
  match o with Ok (b, r) => CB b r | OOB _ => COob | Unmodelled => CUnmod end.
Definition canf (brief:bool) : canfmt := if brief then cf_brief else cf_full.
Definition m_can_create (brief:bool) (b:buf) (id:N) (payload:list N) (plen variant:N) : cout :=
  of_can (can_create m_ldq m_stq (canf brief) b id payload plen variant).
Definition m_can_finalize (brief:bool) (b:buf) (plen:N) : cout :=
  of_can (can_finalize m_ldq m_stq (canf brief) b plen).
Definition m_can_set_payload (b:buf) (payload:list N) (plen:N) : cout :=
  match can_set_payload cf_full b payload plen with Ok b' => CB b' 0 | OOB _ => COob | Unmodelled => CUnmod end.
Definition m_can_payload_length (b:buf) : cout :=
  match can_payload_length m_ldq m_stq cf_full b with Ok v => CV v | OOB _ => COob | Unmodelled => CUnmod end.
Definition s_can_create (brief:bool) (b:buf) (id:N) (payload:list N) (variant:N) : cout :=
  let r := can_ref (canf brief) b id payload variant in
  if snd r <=? blen b then CB (fst r) (snd r) else CUnmod.

(* ---- ACF-VSS ---- *)
Definition m_ldw := Host.ldw hostE m_helpers.
Definition m_stw := Host.stw hostE m_helpers.
Definition of_outb (o:outcome buf) : res := match o with Ok b => RBuf (Some b) | OOB _ => ROob | Unmodelled => RUnmod end.
Definition m_vss_pad (b:buf) (n:N) : res := of_outb (vss_pad m_ldq m_stq b n).
Definition m_vss_calc (b:buf) : res := of_outN (vss_calc_path_len m_ldw m_ldq m_stq b).
Definition m_vss_set_path (b:buf) (p:vpath) : res := of_outb (vss_set_path m_stw m_ldq m_stq b p).
Definition m_vss_get_path (b:buf) (cap:N) : outcome gpath := vss_get_path m_ldw m_ldq m_stq b cap.
Definition m_vss_set_data (b:buf) (d:vdata) : res := of_outb (vss_set_data m_ldw m_stw m_ldq m_stq b d).
Definition m_vss_get_data (b:buf) (dst:option N) : outcome gdata := vss_get_data m_ldw m_ldq m_stq b dst.
Definition m_strs_pack (strs:list (N * list N)) (num:N) (out:buf) : outcome (N * buf) := strs_pack m_stw strs num out.
Definition m_strs_count (dl:N) (data:buf) : outcome N := strs_count m_ldw dl data.
Definition m_strs_unpack (dl:N) (data:buf) (dsts:list (option N)) (num:N) := strs_unpack m_ldw dl data dsts num.

(* reference side *)
Definition s_vss_pad (b:buf) (n:N) : res :=
  if (12 <=? n) && (n + (4 - n mod 4) mod 4 <=? blen b) then RBuf (Some (vss_pad_ref b n)) else RUnmod.
Definition s_vss_set_path (b:buf) (p:rpath) : res :=
  if (hdr_mode b =? path_mode p) && (12 + N.of_nat (List.length (enc_path p)) <=? blen b)
  then RBuf (Some (upd b 12 (enc_path p))) else RUnmod.
Definition rdata_fits (dt:N) (d:rdata) : bool :=
  match d with
  | RScalar w _ => Nat.eqb w (scalar_width dt) && negb (Nat.eqb w 0)
  | RBytes _ => match vss_kind dt with KB => true | _ => false end
  | RElems w _ => Nat.eqb w (elem_width dt) && negb (Nat.eqb w 0)
  | RStrings _ => dt =? 0x8B
  end.
Definition s_vss_set_data (b:buf) (d:rdata) : res :=
  let a := 12 + dec_path_len b in
  if rdata_fits (hdr_datatype b) d && (a + N.of_nat (List.length (enc_data d)) <=? blen b)
  then RBuf (Some (upd b a (enc_data d))) else RUnmod.
Definition s_vss_calc (b:buf) : res := RVal (dec_path_len b).
Definition s_vss_get_path (b:buf) : option rpath := dec_path b.
Definition s_vss_get_data (b:buf) : option rdata := dec_data b.
Definition s_strs_pack (strs:list (list N)) : N * list N := (N.of_nat (List.length (enc_strings strs)), enc_strings strs).
Definition s_strs_unpack (dl:N) (data:list N) : list (list N) := dec_strings (N.to_nat dl) (firstn (N.to_nat dl) data).

(* ---- example programs (C18, C19) ---- *)
Definition m_can_listener (udp fd:bool) (d stale:list N) : lres := can_listener m_ldq m_stq hostE udp fd d stale.
Definition m_talker_packet (udp tscf fd:bool) (seq udpseq:N) (frs:list (cframe * N)) (pdu:buf) : outcome (list N * buf) :=
  talker_packet m_ldq m_stq udp tscf fd seq udpseq frs pdu.
Definition m_hello_recv (udp:bool) (old:buf) (d:list N) := hello_recv m_ldq m_stq udp old d.
Definition m_vss_recv (udp:bool) (old:buf) (d:list N) := vss_recv (Host.ldw hostE m_helpers) m_ldq m_stq udp old d.
Definition m_aaf_recv (st:qstate) (d:list N) := aaf_recv m_ldq m_stq st d.
Definition m_cvf_recv (st:qstate) (d:list N) := cvf_recv m_ldq m_stq st d.
Definition m_crf_recv (talker:bool) (mtt:N) (st:cstate) (d:list N) := crf_recv m_ldq m_stq talker mtt st d.
End Instance.
