(* Host byte order, typed memory accesses, and the byte-order helper sets.

   A typed C access of n bytes reads or writes the value's bytes in host
   order (E = LE or BE).  The helpers of include/avtp/Byteorder.h are given
   as CExpr terms (generated from the source); [set_ok E H] is the computable
   statement "every helper of H is the identity or the byte reversal that a
   host of byte order E needs".  Under it, converting and accessing memory is
   independent of E: that is the content of C13/C14. *)
From Coq Require Import List NArith ZArith Bool Lia Arith ZifyN ZifyNat ZifyBool.
From O1722 Require Import Sym Bits CExpr.
Import ListNotations.
Local Open Scope N_scope.
Ltac Zify.zify_post_hook ::= Z.div_mod_to_equations.

Inductive endian := LE | BE.
Definition host_of (E:endian) (bs:list N) : N := match E with LE => le_of bs | BE => be_of bs end.
Definition host_bytes (E:endian) (n:nat) (v:N) : list N :=
  match E with LE => le_bytes n v | BE => be_bytes n v end.
(* *(uintN_t* )(p + a)  and  *(uintN_t* )(p + a) = v *)
Definition host_ld (E:endian) (n:nat) (b:buf) (a:N) : N := host_of E (slice b a n).
Definition host_st (E:endian) (n:nat) (b:buf) (a:N) (v:N) : buf := upd b a (host_bytes E n v).

Inductive hkind := KBswap | KCpuToLe | KCpuToBe | KLeToCpu | KBeToCpu.
Inductive hwidth := W16 | W32 | W64.
Definition hset := hkind -> hwidth -> cexpr.
Definition wbits (w:hwidth) : nat := match w with W16 => 16 | W32 => 32 | W64 => 64 end%nat.
Definition wbytes (w:hwidth) : nat := match w with W16 => 2 | W32 => 4 | W64 => 8 end%nat.
Definition run (H:hset) (k:hkind) (w:hwidth) (x:N) : N :=
  match eval x (H k w) with Some r => r | None => 0 end.

Definition widths := [W16; W32; W64].
Definition set_ok (E:endian) (H:hset) : bool :=
  forallb (fun w =>
    is_swap (wbits w) (H KBswap w) &&
    match E with
    | LE => is_id (wbits w) (H KCpuToLe w) && is_id (wbits w) (H KLeToCpu w) &&
            is_swap (wbits w) (H KCpuToBe w) && is_swap (wbits w) (H KBeToCpu w)
    | BE => is_swap (wbits w) (H KCpuToLe w) && is_swap (wbits w) (H KLeToCpu w) &&
            is_id (wbits w) (H KCpuToBe w) && is_id (wbits w) (H KBeToCpu w)
    end) widths.

(* ---------- byte reversal as a value ---------- *)
Definition normal (bs:list N) : Prop := Forall (fun x => x < 256) bs.

Lemma normal_slice b a n : normal (slice b a n).
Proof.
  unfold normal, slice. apply Forall_forall. intros x Hx. apply in_map_iff in Hx.
  destruct Hx as [i [<- _]]. unfold byte_at. apply N.mod_lt. lia.
Qed.
Lemma normal_le_bytes n v : normal (le_bytes n v).
Proof.
  revert v; induction n; intros v; cbn [le_bytes]; constructor; [apply N.mod_lt; lia|apply IHn].
Qed.
Lemma normal_rev bs : normal bs -> normal (rev bs).
Proof. unfold normal. intros H. apply Forall_forall. intros x Hx. apply in_rev in Hx. rewrite Forall_forall in H. auto. Qed.

Lemma small_testbit_high x k : x < 256 -> 8 <= k -> N.testbit x k = false.
Proof.
  intros Hx Hk. destruct (N.eq_dec x 0) as [->|Hz]; [apply N.bits_0|].
  apply N.bits_above_log2. assert (N.log2 x < 8) by (apply N.log2_lt_pow2; [lia|exact Hx]). lia.
Qed.

Lemma le_bytes_be_of bs : normal bs -> le_bytes (length bs) (be_of bs) = rev bs.
Proof.
  intros Hn. apply nth_ext with (d:=0) (d':=0); [now rewrite length_le_bytes, rev_length|].
  intros i Hi. rewrite length_le_bytes in Hi.
  rewrite nth_le_bytes by exact Hi. rewrite rev_nth by exact Hi.
  assert (Hlt : nth (length bs - S i) bs 0 < 256).
  { unfold normal in Hn. rewrite Forall_forall in Hn. apply Hn. apply nth_In. lia. }
  apply N.bits_inj. intros k.
  destruct (N.lt_ge_cases k 8) as [Hk|Hk].
  - change 256 with (2^8). rewrite N.mod_pow2_bits_low by exact Hk. rewrite N.shiftr_spec'.
    rewrite be_of_testbit.
    replace ((k + 8 * N.of_nat i) / 8) with (N.of_nat i) by lia.
    replace ((k + 8 * N.of_nat i) mod 8) with k by lia.
    destruct (N.ltb_spec (N.of_nat i) (N.of_nat (length bs))); [|lia].
    unfold nthN. replace (N.to_nat (N.of_nat (length bs) - 1 - N.of_nat i)) with (length bs - S i)%nat by lia.
    rewrite N.mod_small by exact Hlt. reflexivity.
  - change 256 with (2^8). rewrite N.mod_pow2_bits_high by exact Hk.
    symmetry. apply small_testbit_high; assumption.
Qed.

Lemma be_of_le_bytes_bits n x k :
  N.testbit (be_of (le_bytes n x)) k =
    if k <? N.of_nat (8 * n) then N.testbit x (8 * (N.of_nat (8 * n) / 8 - 1 - k / 8) + k mod 8) else false.
Proof.
  rewrite be_of_testbit, length_le_bytes.
  replace (N.of_nat (8 * n) / 8) with (N.of_nat n) by lia.
  destruct (N.ltb_spec (k / 8) (N.of_nat n)); destruct (N.ltb_spec k (N.of_nat (8 * n))); try lia; try reflexivity.
  unfold nthN. rewrite nth_le_bytes by lia. rewrite N.mod_mod by lia.
  change 256 with (2^8). rewrite N.mod_pow2_bits_low by lia. rewrite N.shiftr_spec'. f_equal. lia.
Qed.

Lemma le_bytes_mod n v : le_bytes n (v mod 2^(8 * N.of_nat n)) = le_bytes n v.
Proof.
  apply nth_ext with (d:=0) (d':=0); [now rewrite !length_le_bytes|].
  intros i Hi. rewrite length_le_bytes in Hi. rewrite !nth_le_bytes by exact Hi.
  apply N.bits_inj. intros k. change 256 with (2^8).
  destruct (N.lt_ge_cases k 8) as [Hk|Hk].
  - rewrite !N.mod_pow2_bits_low by exact Hk. rewrite !N.shiftr_spec'.
    rewrite N.mod_pow2_bits_low by lia. reflexivity.
  - rewrite !N.mod_pow2_bits_high by exact Hk. reflexivity.
Qed.

(* a helper classified as a swap computes the byte reversal *)
Lemma swap_value n e x :
  is_swap (8 * n) e = true -> x < 2^(N.of_nat (8 * n)) -> eval x e = Some (be_of (le_bytes n x)).
Proof.
  intros Hs Hx. destruct (is_swap_bits _ _ Hs x Hx) as [r [Hr Hb]]. rewrite Hr. f_equal.
  apply N.bits_inj. intros k. rewrite Hb, be_of_le_bytes_bits. reflexivity.
Qed.

Lemma wbits_bytes w : wbits w = (8 * wbytes w)%nat.
Proof. destruct w; reflexivity. Qed.

Section Access.
  Variable E : endian.
  Variable H : hset.
  Hypothesis Hok : set_ok E H = true.

  Lemma ok_w w : is_swap (wbits w) (H KBswap w) = true /\
    match E with
    | LE => is_id (wbits w) (H KCpuToLe w) = true /\ is_id (wbits w) (H KLeToCpu w) = true /\
            is_swap (wbits w) (H KCpuToBe w) = true /\ is_swap (wbits w) (H KBeToCpu w) = true
    | BE => is_swap (wbits w) (H KCpuToLe w) = true /\ is_swap (wbits w) (H KLeToCpu w) = true /\
            is_id (wbits w) (H KCpuToBe w) = true /\ is_id (wbits w) (H KBeToCpu w) = true
    end.
  Proof.
    unfold set_ok in Hok. rewrite forallb_forall in Hok.
    assert (Hin : In w widths) by (destruct w; cbn; auto).
    specialize (Hok w Hin). apply andb_true_iff in Hok. destruct Hok as [H0 H1]. split; [exact H0|].
    destruct E; repeat (apply andb_true_iff in H1; destruct H1 as [H1 ?]); auto.
  Qed.

  Lemma run_id k w x : is_id (wbits w) (H k w) = true -> x < 2^(N.of_nat (wbits w)) -> run H k w x = x.
  Proof. intros Hi Hx. unfold run. rewrite (is_id_spec _ _ Hi x Hx). reflexivity. Qed.
  Lemma run_swap k w x : is_swap (wbits w) (H k w) = true -> x < 2^(N.of_nat (wbits w)) ->
    run H k w x = be_of (le_bytes (wbytes w) x).
  Proof.
    intros Hs Hx. unfold run. rewrite wbits_bytes in *. rewrite (swap_value _ _ x Hs Hx). reflexivity.
  Qed.

  Lemma host_of_lt bs w : length bs = wbytes w -> host_of E bs < 2^(N.of_nat (wbits w)).
  Proof.
    intros Hl. rewrite wbits_bytes.
    destruct E; cbn [host_of]; unfold le_of;
      [pose proof (be_of_lt (rev bs)) as Hb; rewrite rev_length in Hb | pose proof (be_of_lt bs) as Hb];
      rewrite Hl in Hb; replace (N.of_nat (8 * wbytes w)) with (8 * N.of_nat (wbytes w)) by lia; exact Hb.
  Qed.

  (* the swap primitives reverse the bytes and are involutions *)
  Theorem bswap_reverses w x : x < 2^(N.of_nat (wbits w)) ->
    run H KBswap w x = be_of (le_bytes (wbytes w) x).
  Proof. intros. apply run_swap; [apply ok_w|assumption]. Qed.

  Lemma be_of_le_bytes_lt n x : be_of (le_bytes n x) < 2^(N.of_nat (8 * n)).
  Proof. pose proof (be_of_lt (le_bytes n x)) as Hb. rewrite length_le_bytes in Hb.
         replace (N.of_nat (8 * n)) with (8 * N.of_nat n) by lia. exact Hb. Qed.

  Theorem bswap_involution w x : x < 2^(N.of_nat (wbits w)) ->
    run H KBswap w (run H KBswap w x) = x.
  Proof.
    intros Hx. rewrite (bswap_reverses w x Hx). rewrite bswap_reverses.
    2:{ rewrite wbits_bytes. apply be_of_le_bytes_lt. }
    rewrite <- (length_le_bytes (wbytes w) x) at 1.
    rewrite le_bytes_be_of by apply normal_le_bytes.
    change (be_of (rev (le_bytes (wbytes w) x))) with (le_of (le_bytes (wbytes w) x)).
    rewrite le_of_le_bytes. apply N.mod_small. rewrite wbits_bytes in Hx.
    replace (8 * N.of_nat (wbytes w)) with (N.of_nat (8 * wbytes w)) by lia. exact Hx.
  Qed.

  (* memory image of the converted value *)
  Theorem cpu_to_be_image w v : v < 2^(N.of_nat (wbits w)) ->
    host_bytes E (wbytes w) (run H KCpuToBe w v) = be_bytes (wbytes w) v.
  Proof.
    intros Hv. destruct (ok_w w) as [_ Hw]. destruct E; cbn [host_bytes].
    - destruct Hw as [_ [_ [Hs _]]]. rewrite (run_swap _ _ _ Hs Hv).
      rewrite <- (length_le_bytes (wbytes w) v) at 1.
      rewrite le_bytes_be_of by apply normal_le_bytes. reflexivity.
    - destruct Hw as [_ [_ [Hi _]]]. rewrite (run_id _ _ _ Hi Hv). reflexivity.
  Qed.
  Theorem cpu_to_le_image w v : v < 2^(N.of_nat (wbits w)) ->
    host_bytes E (wbytes w) (run H KCpuToLe w v) = le_bytes (wbytes w) v.
  Proof.
    intros Hv. destruct (ok_w w) as [_ Hw]. destruct E; cbn [host_bytes].
    - destruct Hw as [Hi _]. rewrite (run_id _ _ _ Hi Hv). reflexivity.
    - destruct Hw as [Hs _]. rewrite (run_swap _ _ _ Hs Hv). unfold be_bytes.
      rewrite <- (length_le_bytes (wbytes w) v) at 1.
      rewrite le_bytes_be_of by apply normal_le_bytes. apply rev_involutive.
  Qed.

  (* value obtained from a memory image *)
  Theorem be_to_cpu_value w bs : length bs = wbytes w -> normal bs ->
    run H KBeToCpu w (host_of E bs) = be_of bs.
  Proof.
    intros Hl Hn. pose proof (host_of_lt bs w Hl) as Hlt.
    destruct (ok_w w) as [_ Hw]. destruct E; cbn [host_of] in *.
    - destruct Hw as [_ [_ [_ Hs]]]. rewrite (run_swap _ _ _ Hs Hlt). unfold le_of.
      rewrite <- Hl. rewrite <- (rev_length bs).
      rewrite le_bytes_be_of by (apply normal_rev; exact Hn). rewrite rev_involutive. reflexivity.
    - destruct Hw as [_ [_ [_ Hi]]]. apply (run_id _ _ _ Hi Hlt).
  Qed.
  Theorem le_to_cpu_value w bs : length bs = wbytes w -> normal bs ->
    run H KLeToCpu w (host_of E bs) = le_of bs.
  Proof.
    intros Hl Hn. pose proof (host_of_lt bs w Hl) as Hlt.
    destruct (ok_w w) as [_ Hw]. destruct E; cbn [host_of] in *.
    - destruct Hw as [_ [Hi _]]. apply (run_id _ _ _ Hi Hlt).
    - destruct Hw as [_ [Hs _]]. rewrite (run_swap _ _ _ Hs Hlt). unfold le_of.
      rewrite <- Hl. rewrite le_bytes_be_of by exact Hn. reflexivity.
  Qed.
  (* the to-host helpers invert the from-host ones *)
  Theorem be_roundtrip w v : v < 2^(N.of_nat (wbits w)) ->
    run H KBeToCpu w (run H KCpuToBe w v) = v.
  Proof.
    intros Hv. destruct (ok_w w) as [Hsw Hw]. destruct E.
    - destruct Hw as [_ [_ [Hs1 Hs2]]].
      rewrite (run_swap _ _ _ Hs1 Hv). rewrite (run_swap _ _ _ Hs2).
      2:{ rewrite wbits_bytes. apply be_of_le_bytes_lt. }
      rewrite <- (length_le_bytes (wbytes w) v) at 1.
      rewrite le_bytes_be_of by apply normal_le_bytes.
      change (be_of (rev (le_bytes (wbytes w) v))) with (le_of (le_bytes (wbytes w) v)).
      rewrite le_of_le_bytes. apply N.mod_small. rewrite wbits_bytes in Hv.
      replace (8 * N.of_nat (wbytes w)) with (N.of_nat (8 * wbytes w)) by lia. exact Hv.
    - destruct Hw as [_ [_ [Hi1 Hi2]]]. rewrite (run_id _ _ _ Hi1 Hv). apply (run_id _ _ _ Hi2 Hv).
  Qed.
  Theorem le_roundtrip w v : v < 2^(N.of_nat (wbits w)) ->
    run H KLeToCpu w (run H KCpuToLe w v) = v.
  Proof.
    intros Hv. destruct (ok_w w) as [Hsw Hw]. destruct E.
    - destruct Hw as [Hi1 [Hi2 _]]. rewrite (run_id _ _ _ Hi1 Hv). apply (run_id _ _ _ Hi2 Hv).
    - destruct Hw as [Hs1 [Hs2 _]].
      rewrite (run_swap _ _ _ Hs1 Hv). rewrite (run_swap _ _ _ Hs2).
      2:{ rewrite wbits_bytes. apply be_of_le_bytes_lt. }
      rewrite <- (length_le_bytes (wbytes w) v) at 1.
      rewrite le_bytes_be_of by apply normal_le_bytes.
      change (be_of (rev (le_bytes (wbytes w) v))) with (le_of (le_bytes (wbytes w) v)).
      rewrite le_of_le_bytes. apply N.mod_small. rewrite wbits_bytes in Hv.
      replace (8 * N.of_nat (wbytes w)) with (N.of_nat (8 * wbytes w)) by lia. exact Hv.
  Qed.

  (* ---- the quadlet accessors of the field model ---- *)
  Definition ldq (b:buf) (q:N) : N := run H KBeToCpu W32 (host_ld E 4 b (4 * q)).
  Definition stq (b:buf) (q:N) (v:N) : buf := host_st E 4 b (4 * q) (run H KCpuToBe W32 (v mod 2^32)).

  (* ---- typed 16/32/64-bit accesses at a byte address (VSS codec) ---- *)
  Definition ldw (w:hwidth) (b:buf) (a:N) : N := run H KBeToCpu w (host_ld E (wbytes w) b a).
  Definition stw (w:hwidth) (b:buf) (a:N) (v:N) : buf :=
    host_st E (wbytes w) b a (run H KCpuToBe w (v mod 2^(N.of_nat (wbits w)))).
  Theorem ldw_wire w b a : ldw w b a = be_of (slice b a (wbytes w)).
  Proof. unfold ldw, host_ld. apply (be_to_cpu_value w); [apply length_slice|apply normal_slice]. Qed.
  Theorem stw_wire w b a v : stw w b a v = upd b a (be_bytes (wbytes w) v).
  Proof.
    unfold stw, host_st. f_equal.
    rewrite (cpu_to_be_image w) by (apply N.mod_lt; apply N.pow_nonzero; lia).
    unfold be_bytes. f_equal. rewrite wbits_bytes.
    replace (N.of_nat (8 * wbytes w)) with (8 * N.of_nat (wbytes w)) by lia. apply le_bytes_mod.
  Qed.

  Theorem ldq_wire b q : ldq b q = ldq_be b q.
  Proof.
    unfold ldq, host_ld, ldq_be. apply (be_to_cpu_value W32); [apply length_slice|apply normal_slice].
  Qed.
  Theorem stq_wire b q v : stq b q v = stq_be b q v.
  Proof.
    unfold stq, host_st, stq_be. f_equal.
    rewrite (cpu_to_be_image W32) by (apply N.mod_lt; cbn; lia).
    unfold be_bytes. f_equal. apply (le_bytes_mod 4 v).
  Qed.
End Access.
