(* Hand-written model of the ACF-CAN message builders, statement by statement:
     src/avtp/acf/Can.c       Avtp_Can_SetPayload, Avtp_Can_Finalize, Avtp_Can_CreateAcfMessage,
                              Avtp_Can_GetCanPayloadLength
     src/avtp/acf/CanBrief.c  Avtp_CanBrief_SetPayload, Avtp_CanBrief_Finalize
   Field writes go through the by-identifier writer of the format as generated from the sources
   (first access path of Paths.writers_of); C integer conversions are explicit. *)
From Coq Require Import List NArith Bool String.
From O1722 Require Import Bits FieldModel Spec AccModel FormatChecks Paths.
From O1722.Generated Require Import Tables.
Import ListNotations.
Local Open Scope N_scope.

(* which format, and the enumerator names the builders use *)
Record canfmt := mkcanfmt {
  cf_spec : sformat;
  cf_eff : string; cf_id : string; cf_fdf : string; cf_len : string; cf_pad : string
}.

Section Can.
  Variable ldq : buf -> N -> N.
  Variable stq : buf -> N -> N -> buf.
  Variable c : canfmt.
  Notation s := (cf_spec c).
  Notation hdr := (sp_hdr_len (cf_spec c)).

  (* Avtp_<Fmt>_SetField(pdu, FIELD, value); dedicated getters: Paths.fsetf / fgetd *)
  Definition setf := fsetf ldq stq s.
  Definition getf_ded := fgetd ldq stq s.

  (* memcpy(pdu->payload, payload, payload_length): payload_length is uint16_t *)
  Definition can_set_payload (b:buf) (payload:list N) (plen:N) : outcome buf :=
    let n := plen mod 2 ^ 16 in
    if (n <=? N.of_nat (List.length payload)) && (hdr + n <=? blen b)
    then Ok (upd b hdr (map (fun x => x mod 256) (firstn (N.to_nat n) payload)))
    else OOB ((hdr + n) / 4).

  (* Avtp_Can_Finalize / Avtp_CanBrief_Finalize; returns the buffer and avtpCanLength *)
  Definition can_finalize (b:buf) (plen:N) : outcome (buf * N) :=
    let n := plen mod 2 ^ 16 in
    let padSize := (4 - n mod 4) mod 2 ^ 8 in                 (* uint8_t padSize = 4 - (len % 4) *)
    let len0 := (hdr + n) mod 2 ^ 32 in                       (* uint32_t avtpCanLength *)
    let step1 :=
      if negb (n mod 4 =? 0) then
        if hdr + n + padSize <=? blen b
        then Ok (upd b (hdr + n) (repeat 0 (N.to_nat padSize)), (len0 + padSize) mod 2 ^ 32)
        else OOB ((hdr + n + padSize) / 4)
      else Ok (b, len0) in
    bind step1 (fun bl =>
      bind (setf (cf_len c) (snd bl / 4) (fst bl)) (fun b2 =>
        bind (setf (cf_pad c) padSize b2) (fun b3 => Ok (b3, snd bl)))).

  (* Avtp_Can_CreateAcfMessage / Avtp_CanBrief_SetPayload: frame_id uint32_t, can_variant converted to uint8_t *)
  Definition can_create (b:buf) (frame_id:N) (payload:list N) (plen:N) (variant:N) : outcome (buf * N) :=
    let id := frame_id mod 2 ^ 32 in
    bind (can_set_payload b payload plen) (fun b1 =>
      bind (setf (cf_eff c) (if 0x7ff <? id then 1 else 0) b1) (fun b2 =>
        bind (setf (cf_id c) id b2) (fun b3 =>
          bind (setf (cf_fdf c) (variant mod 2 ^ 8) b3) (fun b4 =>
            can_finalize b4 plen)))).

  (* uint8_t Avtp_Can_GetCanPayloadLength: all three in uint8_t *)
  Definition can_payload_length (b:buf) : outcome N :=
    bind (getf_ded (cf_len c) b) (fun l =>
      bind (getf_ded (cf_pad c) b) (fun p =>
        let acf_msg_length := (l * 4) mod 2 ^ 8 in
        let acf_pad_length := p mod 2 ^ 8 in
        (* int arithmetic, converted to uint8_t on return *)
        Ok ((acf_msg_length + 2 ^ 32 - hdr - acf_pad_length) mod 2 ^ 8))).
End Can.

Local Open Scope string_scope.
Definition cf_full : canfmt := mkcanfmt spec_Can "AVTP_CAN_FIELD_EFF" "AVTP_CAN_FIELD_CAN_IDENTIFIER" "AVTP_CAN_FIELD_FDF"
  "AVTP_CAN_FIELD_ACF_MSG_LENGTH" "AVTP_CAN_FIELD_PAD".
Definition cf_brief : canfmt := mkcanfmt spec_CanBrief "AVTP_CAN_BRIEF_FIELD_EFF" "AVTP_CAN_BRIEF_FIELD_CAN_IDENTIFIER"
  "AVTP_CAN_BRIEF_FIELD_FDF" "AVTP_CAN_BRIEF_FIELD_ACF_MSG_LENGTH" "AVTP_CAN_BRIEF_FIELD_PAD".
Local Close Scope string_scope.

(* ---------- reference: what the property text says a built message looks like ---------- *)
(* payload verbatim behind the header, zero fill to the quadlet boundary, length (quadlets), pad count,
   identifier, eff = (id > 0x7ff), fdf = variant; nothing else *)
Definition can_ref (c:canfmt) (b:buf) (id:N) (payload:list N) (variant:N) : buf * N :=
  let s := cf_spec c in
  let hdr := sp_hdr_len s in
  let len := N.of_nat (List.length payload) in
  let pad := (4 - len mod 4) mod 4 in
  let b1 := upd b hdr (map (fun x => x mod 256) payload) in
  let b2 := ref_set s (cf_fdf c) variant (ref_set s (cf_id c) id (ref_set s (cf_eff c) (if 0x7ff <? id then 1 else 0) b1)) in
  let b3 := upd b2 (hdr + len) (repeat 0 (N.to_nat pad)) in
  (ref_set s (cf_pad c) pad (ref_set s (cf_len c) ((hdr + len + pad) / 4) b3), hdr + len + pad).

(* the separate steps of the API: copy the payload, set the three fields through their dedicated
   setters in the given order, finalise *)
Section Compose.
  Variable ldq : buf -> N -> N.
  Variable stq : buf -> N -> N -> buf.
  Variable c : canfmt.
  Definition setd := fsetd ldq stq (cf_spec c).
  Fixpoint setds (l:list (string * N)) (b:buf) : outcome buf :=
    match l with
    | [] => Ok b
    | (n, v) :: r => bind (setd n v b) (setds r)
    end.
  Definition can_compose (b:buf) (l:list (string * N)) (payload:list N) (plen:N) : outcome (buf * N) :=
    bind (can_set_payload c b payload plen) (fun b1 => bind (setds l b1) (fun b2 => can_finalize ldq stq c b2 plen)).
End Compose.
